#!/bin/bash
# usage: tools/seed_eval.sh <seed-id> <src-out-dir> <prop> [more props to run...]
# Confirms a seeded change in a scratch worktree (suite passes with it; demo fails with it, passes without it),
# stores it under /verif/seeded/<seed-id>/, then applies it to /repo, runs the named checks, and reverts /repo.
set -u
id=$1; src=$2; shift 2; props="$@"
dst=/verif/seeded/$id; mkdir -p $dst
cp $src/patch.diff $dst/patch.diff; cp $src/demo.rs $dst/demo.rs; cp $src/meta.json $dst/agent_meta.json 2>/dev/null
if [ -f /tmp/confirm_$id ]; then read suite_fail with_rc without_rc < /tmp/confirm_$id; else
wt=/tmp/ev_$id; rm -rf $wt; git -C /repo worktree prune; git -C /repo worktree add -q --detach $wt HEAD || exit 3
export CARGO_TARGET_DIR=$wt/target CARGO_NET_OFFLINE=true
cd $wt
if ! git apply $dst/patch.diff; then echo "PATCH DOES NOT APPLY to current HEAD"; git -C /repo worktree remove --force $wt; exit 4; fi
suite_fail=$(cargo test --offline 2>&1 | grep -E "^test result" | grep -vc "ok\.")
# DEMO_MODE: test (default) = demo.rs fails with the patch / passes without; noalloc = same under --no-default-features;
#            compile = conflict.rs must COMPILE with the patch (property broken) and be rejected without it
mode=${DEMO_MODE:-test}
if [ "$mode" = compile ]; then
  cp $src/conflict.rs $dst/conflict.rs 2>/dev/null; cp $dst/conflict.rs tests/demo_seed.rs
  cargo test --offline --test demo_seed --no-run >/tmp/ev_$id.with.log 2>&1; c=$?; with_rc=$(( c == 0 ? 101 : 0 ))   # compiling = broken
  git checkout -q -- src
  cargo test --offline --test demo_seed --no-run >/tmp/ev_$id.without.log 2>&1; c=$?; without_rc=$(( c == 0 ? 101 : 0 ))
else
  extra=""; [ "$mode" = noalloc ] && extra="--no-default-features"
  cp $dst/demo.rs tests/demo_seed.rs
  cargo test --offline $extra --test demo_seed >/tmp/ev_$id.with.log 2>&1; with_rc=$?
  git checkout -q -- src
  cargo test --offline $extra --test demo_seed >/tmp/ev_$id.without.log 2>&1; without_rc=$?
fi
cd /verif; git -C /repo worktree remove --force $wt; rm -rf $wt
fi
# PHASE=confirm: only the scratch confirmation (parallelisable, does not touch /repo); a later plain call reuses /tmp/confirm_<id>
if [ "${PHASE:-}" = confirm ]; then echo "$suite_fail $with_rc $without_rc" > /tmp/confirm_$id; echo "seed $id confirm: $suite_fail $with_rc $without_rc"; exit 0; fi
echo "seed $id: suite_failing_groups_with_patch=$suite_fail demo_rc_with_patch=$with_rc demo_rc_without_patch=$without_rc"
# run the checks against the patched /repo
git -C /repo apply $dst/patch.diff || { echo "cannot apply to /repo"; exit 5; }
res=""
for p in $props; do
  out=$(./check $p 2>&1); rc=$?
  n=$(echo "$out" | grep -c "^VIOLATION")
  first=$(echo "$out" | grep -A1 "^VIOLATION" | sed -n 2p | cut -c1-220)
  echo "  check $p: rc=$rc violations=$n  $first"
  res="$res{\"check\":\"$p\",\"rc\":$rc,\"violations\":$n},"
done
git -C /repo checkout -- .
python3 - "$id" "$suite_fail" "$with_rc" "$without_rc" "[${res%,}]" "$props" <<'PY'
import json,sys,os
id,sf,w,wo,res,props=sys.argv[1:7]
d=f"/verif/seeded/{id}"
am={}
try: am=json.load(open(f"{d}/agent_meta.json"))
except Exception: pass
meta={"seed":id,"property":am.get("property",id.split('-')[0]),"summary":am.get("summary",""),"needs":am.get("needs",""),
      "confirmed":{"suite_failing_groups_with_patch":int(sf),"demo_exit_with_patch":int(w),"demo_exit_without_patch":int(wo),
                   "ok": int(sf)==0 and int(w)!=0 and int(wo)==0},
      "what_was_run":["scratch worktree of /repo HEAD: git apply patch.diff; cargo test --offline (suite); cargo test --offline --test demo_seed (with patch, then with src reverted)",
                      "git -C /repo apply patch.diff; ./check <prop> (quick) for: "+props+"; git -C /repo checkout -- ."],
      "checks":json.loads(res)}
json.dump(meta,open(f"{d}/meta.json","w"),indent=1)
print("  ->",d,"confirmed" if meta["confirmed"]["ok"] else "NOT CONFIRMED", "detected_by="+",".join(c["check"] for c in meta["checks"] if c["rc"]==1))
PY
