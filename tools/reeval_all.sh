#!/bin/bash
# Re-confirms and re-evaluates every seeded change against the quick check of the property it targets (refreshes meta.json).
cd /verif
for d in seeded/*/; do
  id=$(basename $d); prop=${id%%-*}
  mode=test; [ -f $d/conflict.rs ] && mode=compile; [ "$prop" = C19 ] && mode=noalloc
  extra=""
  case $id in C03-d|C09-d) extra="C06";; C08-c) extra="C09";; esac
  DEMO_MODE=$mode tools/seed_eval.sh $id /verif/$d $prop $extra 2>&1 | grep -E "^seed|->" | tr '\n' ' '; echo
done
