#!/usr/bin/env python3
"""Re-run the detecting checks of every seed in /verif/seeded against the CURRENT machinery (development aid, not a registered check).
For each seed: pristine copy of /repo HEAD outside /repo and /verif + patch.diff, then `ANYVEC_SRC=<copy> ./check <prop>` for the
checks its meta.json lists as detecting (fallback: the seed's own property); expected exit code 1 for at least one of them.
Nothing in /repo is touched. Usage: tools/seed_recheck.py [--workers N] [--out notes/seed_recheck.jsonl] [seed ids...]
"""
import json, os, subprocess, sys, shutil, hashlib, threading, queue

ROOT = os.path.dirname(os.path.dirname(os.path.abspath(__file__)))
WORK = "/tmp/sr"


def one(sid, outf, lock):
    d = os.path.join(ROOT, "seeded", sid)
    meta = json.load(open(os.path.join(d, "meta.json")))
    props = [c["check"] for c in meta.get("checks", []) if c.get("rc") == 1] or [sid.split("-")[0]]
    cp = os.path.join(WORK, sid)
    shutil.rmtree(cp, ignore_errors=True)
    os.makedirs(cp)
    tar = subprocess.Popen(["git", "-C", "/repo", "archive", "HEAD"], stdout=subprocess.PIPE)
    subprocess.run(["tar", "-x", "-C", cp], stdin=tar.stdout, check=True)
    p = subprocess.run(["patch", "-p1", "-s", "-i", os.path.join(d, "patch.diff")], cwd=cp, capture_output=True, text=True)
    rec = {"seed": sid, "props": props, "results": {}}
    if p.returncode != 0:
        rec["status"] = "patch-does-not-apply"
    else:
        for prop in props:
            q = subprocess.run([os.path.join(ROOT, "check"), prop], env=dict(os.environ, ANYVEC_SRC=cp, CARGO_BUILD_JOBS="3"), capture_output=True, text=True)
            rec["results"][prop] = q.returncode
            if q.returncode == 1:
                break
        rec["status"] = "detected" if 1 in rec["results"].values() else ("machinery" if any(v not in (0, 1) for v in rec["results"].values()) else "NOT-DETECTED")
    tag = hashlib.sha1(cp.encode()).hexdigest()[:8]
    shutil.rmtree(cp, ignore_errors=True)
    shutil.rmtree(os.path.join(ROOT, "target", f"alt-{tag}"), ignore_errors=True)
    with lock:
        outf.write(json.dumps(rec) + "\n")
        outf.flush()
        print(f"{sid:8} {rec['status']:22} {rec['results']}", flush=True)


def main():
    args = sys.argv[1:]
    workers = int(args[args.index("--workers") + 1]) if "--workers" in args else 5
    out = args[args.index("--out") + 1] if "--out" in args else os.path.join(ROOT, "notes", "seed_recheck.jsonl")
    ids = [a for a in args if a[0] == "C" and "-" in a] or sorted(os.listdir(os.path.join(ROOT, "seeded")))
    os.makedirs(WORK, exist_ok=True)
    outf = open(out, "w")
    lock = threading.Lock()
    q = queue.Queue()
    for s in ids:
        q.put(s)

    def loop():
        while True:
            try:
                s = q.get_nowait()
            except queue.Empty:
                return
            try:
                one(s, outf, lock)
            except Exception as e:
                print(f"{s} ERROR {e}", flush=True)
    ths = [threading.Thread(target=loop) for _ in range(workers)]
    for t in ths:
        t.start()
    for t in ths:
        t.join()


if __name__ == "__main__":
    main()
