#!/bin/bash
# usage: tools/benign_eval.sh <id> <dir with patch.diff + meta.json>
# A behaviour-PRESERVING change (refactor / optimisation written by a helper that was given all property statements):
# applies it to a pristine copy of /repo outside /repo and /verif, runs the repository suite and EVERY quick check against
# the copy (ANYVEC_SRC), stores patch + outcome under /verif/benign/<id>/. Any VIOLATION is then triaged by hand:
# either the helper did break a property (kept as a note) or the check raised a false alarm (machinery is corrected).
set -u
id=$1; src=$2
dst=/verif/benign/$id; mkdir -p $dst
if [ "$(realpath $src)" != "$(realpath $dst)" ]; then cp $src/patch.diff $dst/patch.diff; cp $src/meta.json $dst/agent_meta.json 2>/dev/null; fi
cp=/tmp/bn_$id; rm -rf $cp; mkdir -p $cp
git -C /repo archive HEAD | tar -x -C $cp
( cd $cp && git init -q . 2>/dev/null; git apply --unsafe-paths $dst/patch.diff 2>/dev/null || patch -p1 -s < $dst/patch.diff ) || { echo "patch does not apply"; exit 4; }
suite_fail=$(cd $cp && CARGO_TARGET_DIR=$cp/target CARGO_NET_OFFLINE=true cargo test --offline 2>&1 | grep -E "^test result" | grep -vc "ok\.")
res=""
for p in C01 C02 C03 C04 C05 C06 C07 C08 C09 C10 C11 C12 C13 C14 C15 C16 C17 C18 C19; do
  out=$(ANYVEC_SRC=$cp /verif/check $p 2>&1); rc=$?
  n=$(echo "$out" | grep -c "^VIOLATION")
  first=$(echo "$out" | grep -A2 "^VIOLATION" | sed -n 2,3p | tr '\n' ' ' | cut -c1-400)
  echo "  check $p: rc=$rc violations=$n  $first"
  res="$res{\"check\":\"$p\",\"rc\":$rc,\"violations\":$n,\"first\":$(python3 -c 'import json,sys; print(json.dumps(sys.argv[1]))' "$first")},"
done
tag=$(python3 -c "import hashlib,sys; print(hashlib.sha1(sys.argv[1].encode()).hexdigest()[:8])" $cp)
rm -rf $cp /verif/target/alt-$tag
python3 - "$id" "$suite_fail" "[${res%,}]" <<'PY'
import json,sys
id,sf,res=sys.argv[1:4]
d=f"/verif/benign/{id}"
am={}
try: am=json.load(open(f"{d}/agent_meta.json"))
except Exception: pass
checks=json.loads(res)
meta={"id":id,"area":am.get("area",""),"summary":am.get("summary",""),"why_preserving":am.get("why_preserving",""),
      "suite_failing_groups_with_patch":int(sf),
      "what_was_run":"pristine copy of /repo HEAD + patch.diff outside /repo; cargo test --offline; ANYVEC_SRC=<copy> ./check Cxx (quick) for all 19 properties",
      "checks":checks,"alarms":[c["check"] for c in checks if c["rc"]!=0]}
json.dump(meta,open(f"{d}/meta.json","w"),indent=1)
print("  ->",d,"suite_fail_groups=",sf,"alarms=",meta["alarms"])
PY
