#!/usr/bin/env python3
"""Mutation sweep (development aid, not a registered check): generates small syntactic mutants of /repo/src, keeps those that still
compile and pass the repository's own suite, and runs every quick check against each survivor through ANYVEC_SRC copies.
Prints the mutants no check detects. Usage: tools/mutsweep.py [--workers N] [--only file.rs] [--limit K] [--out results.jsonl]
"""
import json, os, re, subprocess, sys, shutil, hashlib, concurrent.futures as cf, threading, time

ROOT = os.path.dirname(os.path.dirname(os.path.abspath(__file__)))
REPO = os.environ.get("MUT_REPO", "/repo")
WORK = "/tmp/ms"
PROPS = ["C01", "C02", "C03", "C04", "C05", "C06", "C07", "C08", "C09", "C10", "C11", "C12", "C13", "C14", "C15", "C16", "C17", "C18"]

OPS = [
    (r"(?<![<>=!\-+*/&|])<(?![<=])(?=\s)", "<="), (r"<=", "<"), (r"(?<![<>=!\-])>(?![>=])(?=\s)", ">="), (r">=", ">"),
    (r"==", "!="), (r"!=", "=="), (r"&&", "||"), (r"\|\|", "&&"),
    (r"\+ 1\b", "+ 2"), (r"\+ 1\b", ""), (r"- 1\b", ""), (r"- 1\b", "- 2"), (r"\+= 1", "+= 2"), (r"-= 1", "-= 2"),
    (r"\bindex\b(?=\))", "index + 1"), (r"\.add\(([a-z_\.]+)\)", r".add(\1 + 1)"),
    (r"\bself\.iter\.end\b", "self.end"), (r"\bself\.end\b", "self.iter.end"), (r"\bself\.start\b", "self.iter.index"), (r"\bself\.iter\.index\b", "self.start"),
    (r"\blast_index\b", "index"), (r"\boriginal_len\b", "start"),
    (r"if (.+) \{$", r"if !(\1) {"), (r"if (.+)\{$", r"if !(\1){"),
    (r"\* 2\b", "* 1"), (r"cmp::max", "cmp::min"), (r"\bsize\(\)", "size() + 1"),
]
OPS2 = [
    (r"ptr::copy\(", "ptr::copy_nonoverlapping("), (r"ptr::copy_nonoverlapping\(", "ptr::copy("), (r"size_of::<", "align_of::<"), (r"\.size\(\)", ".align()"), (r"\.align\(\)", ".size()"),
    (r"\bself\.len\b(?!\s*[-+]?=)", "self.capacity()"), (r"\bself\.capacity\(\)", "self.len"), (r"\bstart\b", "end"), (r"\bend\b", "start"), (r"\b128\b", "64"), (r"\b128\b", "1024"),
    (r"checked_mul", "wrapping_mul"), (r"checked_add", "wrapping_add"), (r"usize::MAX", "0"), (r"\bsrc_index\b", "dst_index"), (r"\bdst_index\b", "src_index"),
    (r"\(src, dst,", "(dst, src,"), (r"\bindex\b", "last_index"), (r"\blen\b(?=\))", "len + 1"), (r"\blen\b(?=\))", "len - 1"), (r"Some\(", "None.or(Some("), (r"\.is_empty\(\)", ".is_empty() == false"),
    (r"new_size == 0", "new_size == 1"), (r"self\.size == 0", "self.size == 1"), (r"\bnew_len\b", "self.len"), (r"elements_left", "0"), (r"replace_end", "self.start"), (r"element_size \* ", ""), (r"\* self\.element_layout\(\)\.size\(\)", ""),
    (r"\.rev\(\)", ""), (r"unwrap_or_else", "unwrap_or_else"), (r"TypeId::of::<T>\(\)", "TypeId::of::<Unknown>()"), (r"needs_drop::<T>\(\)", "needs_drop::<T>() == false"), (r"!Unknown::is", "Unknown::is"), (r"(?<!!)Unknown::is", "!Unknown::is"),
]
DELETABLE = re.compile(r"^\s*(self\.[a-z_\.]+\s*[-+]?=\s*[^;]+;|any_vec_raw\.len\s*[-+]?=\s*[^;]+;|mem::forget\([a-z_]+\);|self\.op\.consume\(\);|[a-z_\.]*reserve[a-z_]*\([^;]*\);|drop_elements_range\($|cloned\.len = self\.len;|ptr = ptr\.add\([^;]+\);|self\.type_check\(&value\);|self\.raw\.type_check\(&value\);|self\.raw\.index_check\(index\);|self\.this\(\)\.index_check\(index\);|assert[a-z_!]*\(.*\);)\s*$")


TYPE_OPS = [
    (r"\+ Send\b", ""), (r"\+ Sync\b", ""), (r": Send\b", ": Sized"), (r": Sync\b", ": Sized"), (r"Sync \+ ", ""), (r"Send \+ ", ""),
    (r"\bSync\b", "Send"), (r"\bSend\b", "Sync"), (r"&mut self", "&self"), (r"&'a mut ", "&'a "), (r"\+ '_", "+ 'a"), (r"<'_, ", "<'static, "),
    (r"&'a mut AnyVecRaw", "&'a AnyVecRaw"), (r"PhantomData<&'a mut ", "PhantomData<&'a "), (r"T: Clone", "T: Sized"), (r"\+ Cloneable", ""),
    (r"M::Mem: MemResizable", "M::Mem: Mem"), (r"M: MemBuilderSizeable", "M: MemBuilder"), (r"-> &'a ", "-> &'static "),
]


def gen_type_mutants():
    muts = []
    for dp, _, fs in os.walk(os.path.join(REPO, "src")):
        for f in sorted(fs):
            if not f.endswith(".rs"):
                continue
            path = os.path.join(dp, f)
            lines = open(path).read().split("\n")
            for i, line in enumerate(lines):
                st = line.strip()
                if st.startswith("//") or st.startswith("use ") or not st:
                    continue
                code = line.split("//")[0]
                for pat, rep in TYPE_OPS:
                    for m in re.finditer(pat, code):
                        new = code[:m.start()] + m.expand(rep) + code[m.end():]
                        if new != code:
                            muts.append((path, i, line, new + line[len(code):], f"{pat} -> {rep}"))
    seen, out = set(), []
    for m in muts:
        k = (m[0], m[1], m[3])
        if k not in seen:
            seen.add(k)
            out.append(m)
    return out


def gen_mutants(only=None):
    muts = []
    for dp, _, fs in os.walk(os.path.join(REPO, "src")):
        for f in sorted(fs):
            if not f.endswith(".rs") or (only and f != only):
                continue
            path = os.path.join(dp, f)
            lines = open(path).read().split("\n")
            in_doc = False
            for i, line in enumerate(lines):
                st = line.strip()
                if st.startswith("//") or st.startswith("#[") or st.startswith("use ") or st.startswith("pub use") or not st:
                    continue
                if "fmt::" in line or "debug_struct" in line or ".field(" in line:
                    continue
                code = line.split("//")[0]
                for pat, rep in OPS:
                    for m in re.finditer(pat, code):
                        new = code[:m.start()] + m.expand(rep) + code[m.end():]
                        if new != code:
                            muts.append((path, i, line, new + line[len(code):], f"{pat} -> {rep}"))
                if DELETABLE.match(code):
                    muts.append((path, i, line, re.sub(r"\S.*$", "/* deleted */", code, count=1), "delete statement"))
    # dedup
    seen, out = set(), []
    for m in muts:
        k = (m[0], m[1], m[3])
        if k not in seen:
            seen.add(k)
            out.append(m)
    return out


lock = threading.Lock()
FIRST_ONLY = "--first" in sys.argv   # stop at the first check that detects the mutant (finding survivors is the point)


def run_one(worker, k, mut, outf):
    path, i, old, new, desc = mut
    wd = os.path.join(WORK, f"w{worker}")
    src = os.path.join(wd, "repo")
    if not os.path.exists(src):
        os.makedirs(wd, exist_ok=True)
        subprocess.run(["rsync", "-a", "--exclude", "target", "--exclude", ".git", REPO + "/", src + "/"], check=True)
    rel = os.path.relpath(path, REPO)
    # restore pristine sources, apply the mutant
    subprocess.run(["rsync", "-a", "--exclude", "target", "--exclude", ".git", "--delete", "--exclude", "Cargo.lock", REPO + "/src/", src + "/src/"], check=True)
    lines = open(os.path.join(src, rel)).read().split("\n")
    assert lines[i] == old
    lines[i] = new
    open(os.path.join(src, rel), "w").write("\n".join(lines))
    env = dict(os.environ, CARGO_NET_OFFLINE="true", CARGO_TARGET_DIR=os.path.join(wd, "rt"), CARGO_BUILD_JOBS="2")
    p = subprocess.run(["cargo", "test", "--offline", "-q"], cwd=src, env=env, capture_output=True, text=True)
    rec = {"k": k, "file": rel, "line": i + 1, "old": old.strip(), "new": new.strip(), "op": desc}
    if p.returncode != 0:
        rec["status"] = "killed-by-suite-or-invalid"
    else:
        det, mach = [], []
        env2 = dict(os.environ, ANYVEC_SRC=src, CARGO_BUILD_JOBS="3")
        for prop in PROPS:
            q = subprocess.run([os.path.join(ROOT, "check"), prop], env=env2, capture_output=True, text=True)
            if q.returncode == 1:
                det.append(prop)
                if FIRST_ONLY:
                    break
            elif q.returncode != 0:
                mach.append(prop)
        rec["status"] = "detected" if det else ("machinery" if mach else "SURVIVED")
        rec["detected_by"] = det
        rec["machinery"] = mach
    with lock:
        outf.write(json.dumps(rec) + "\n")
        outf.flush()
        print(f"[{k}] {rec['status']:<28} {rel}:{i + 1} {desc}   {rec.get('detected_by', '')}", flush=True)
    return rec


def main():
    args = sys.argv[1:]
    workers = int(args[args.index("--workers") + 1]) if "--workers" in args else 4
    only = args[args.index("--only") + 1] if "--only" in args else None
    limit = int(args[args.index("--limit") + 1]) if "--limit" in args else None
    out = args[args.index("--out") + 1] if "--out" in args else "/tmp/ms/results.jsonl"
    global PROPS, WORK
    if "--second" in args:
        global OPS
        OPS = OPS2
        muts = [m for m in gen_mutants(only) if m[4] != "delete statement"]
        WORK = "/tmp/ms2"
        PROPS = ["C01", "C02", "C14", "C13", "C04", "C08", "C11", "C10", "C12", "C18", "C17", "C09", "C07", "C06", "C03", "C05", "C15", "C16"]
    elif "--type-level" in args:
        muts = gen_type_mutants()
        PROPS = ["C15", "C16"]
        WORK = "/tmp/mst"
    else:
        muts = gen_mutants(only)
    if "--list" in args and "--second" in args:
        pass
    if "--list" in args:
        for k, m in enumerate(muts):
            print(k, os.path.relpath(m[0], REPO), m[1] + 1, m[4], "|", m[3].strip())
        print(len(muts), "mutants")
        return
    os.makedirs(WORK, exist_ok=True)
    done = set()
    if os.path.exists(out):
        for l in open(out):
            done.add(json.loads(l)["k"])
    todo = [(k, m) for k, m in enumerate(muts) if k not in done]
    if limit:
        todo = todo[:limit]
    print(f"{len(muts)} mutants, {len(todo)} to run, {workers} workers")
    outf = open(out, "a")
    import queue
    q = queue.Queue()
    for t in todo:
        q.put(t)

    def loop(w):
        while True:
            try:
                k, m = q.get_nowait()
            except queue.Empty:
                return
            try:
                run_one(w, k, m, outf)
            except Exception as e:
                print(f"[{k}] ERROR {e}", flush=True)
    ths = [threading.Thread(target=loop, args=(w,)) for w in range(workers)]
    for t in ths:
        t.start()
    for t in ths:
        t.join()


if __name__ == "__main__":
    main()
