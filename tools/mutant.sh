#!/bin/sh
# usage: tools/mutant.sh <patch> <prop>...   applies the patch to /repo, runs the repo suite and the checks, reverts.
p=$(realpath "$1"); shift
cd /repo && git apply "$p" || exit 3
suite=$(cargo test --offline 2>&1 | grep -E "^test result" | grep -vc "ok\.")
echo "== $(basename $p): repo suite failing groups: $suite"
for c in "$@"; do (cd /verif && ./check $c | grep -E "^VIOLATION|^MACHINERY|quick:" | head -3); done
git -C /repo checkout -- .
