#!/usr/bin/env python3
"""Regenerate MANIFEST.json from the table below (keeps it schema-valid and consistent)."""
import json, os
ROOT = os.path.dirname(os.path.dirname(os.path.abspath(__file__)))
props = [json.loads(l)["id"] for l in open(os.path.join(ROOT, "properties.jsonl"))]

MC_NOTE = ("Trusted base: rustc 1.95, stateright 0.31, the harness's reference model (std Vec + identity registry) and its canonical "
           "state construction (typed push/pop only). Assumes data independence of the container (contents canonical per (len,cap), "
           "checked by the spare-slot modes) and the stated bounds (quick L=3,Cmax=6; thorough L=5,Cmax=12, config cover of DESIGN.md 3.3).")
T_MC = "explicit-state model checking (stateright BFS) of the real code against a Vec reference model"

CHECKS = {
 "C01": ("model_checking", "Every element-wise operation instance (op x index 0..=len+1 x value source x value sink x erased/typed API) is executed on the real AnyVec from every reachable abstract state (len,cap,spare-mode) of every listed configuration and compared step for step with std Vec + identity registry; by induction this covers every history whose states stay inside the bound.", "4/C01", T_MC),
 "C02": ("model_checking", "Every drain/splice instance: every valid range in every RangeBounds form, every invalid range around the boundary and at usize::MAX, every next/next_back string (incl. calls after exhaustion), every per-item sink, replacement lengths 0..=3 from every source kind, erased and typed, from every reachable state; compared with Vec::drain/splice.", "4/C02", T_MC),
 "C14": ("model_checking", "Every iterator kind x every next/next_back string up to len+3 x every clone point (shared iterators), every sub-range for drain/splice, from every reachable state: len()/size_hint() equal the remaining count at every step, items match a VecDeque model, None forever after exhaustion, clones independent.", "4/C14", T_MC),
}
NOT_YET = "check not built yet (see DESIGN.md implementation order)"

m = {"version": 1, "setup_cmd": "./setup.sh",
     "hooks": {"guard": "any_vec_verif",
               "enable": "none needed: every observation point is public API, a user-defined MemBuilder/Mem, the element type's Drop/Clone, or the harness's #[global_allocator]; no hook code is compiled into /repo (the cfg name is reserved)",
               "baseline_off_cmd": "cd /repo && cargo test --workspace --no-fail-fast --offline", "source_commits": [], "add_only": True},
     "engines": [{"name": "anyvec-mc", "path": "mc/", "serves_properties": [p for p in props if p in CHECKS and p not in ("C15", "C16")],
                  "kind_free_text": "stateright 0.31 explicit-state BFS; next_state builds the real AnyVec for the abstract state and executes the operation instance on it and on a Vec+registry reference model; one process per configuration"}],
     "checks": [], "notes": "see DESIGN.md; known findings and repaired defects are listed in known_findings.txt",
     "not_applicable": []}
for p in props:
    if p in CHECKS:
        lvl, text, ref, tech = CHECKS[p]
        m["checks"].append({"property_id": p, "quick_cmd": f"./check {p} --tier quick", "thorough_cmd": f"./check {p} --tier thorough",
                            "evidence_file": f"/verif/evidence/{p}.json", "replay_cmd_template": f"./check {p} --replay {{path}}", "engine": "anyvec-mc",
                            "level_claimed": {"category": lvl, "text": text, "design_ref": ref}, "level_note": MC_NOTE, "technique": tech})
    else:
        m["not_applicable"].append({"property_id": p, "reason": NOT_YET})
json.dump(m, open(os.path.join(ROOT, "MANIFEST.json"), "w"), indent=1)
print("MANIFEST.json:", len(m["checks"]), "checks,", len(m["not_applicable"]), "not applicable")
