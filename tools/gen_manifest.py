#!/usr/bin/env python3
"""Regenerate MANIFEST.json from the table below (keeps it schema-valid and consistent)."""
import json, os
ROOT = os.path.dirname(os.path.dirname(os.path.abspath(__file__)))
props = [json.loads(l)["id"] for l in open(os.path.join(ROOT, "properties.jsonl"))]

MC_NOTE = ("Trusted base: rustc 1.95, stateright 0.31, the harness's reference model (std Vec + identity registry) and its canonical "
           "state construction (typed push/pop only). Assumes data independence of the container (contents canonical per (len,cap), "
           "checked by the spare-slot modes) and the stated bounds (quick L=3,Cmax=6; thorough L=5,Cmax=12, config cover of DESIGN.md 3.3).")
T_MC = "explicit-state model checking (stateright BFS) of the real code against a Vec reference model"

CHECKS = {
 "C01": ("model_checking", "Every element-wise operation instance (op x index 0..=len+1 x value source x value sink x erased/typed API) is executed on the real AnyVec from every reachable abstract state (len,cap,spare-mode) of every listed configuration and compared step for step with std Vec + identity registry; by induction this covers every history whose states stay inside the bound.", "4/C01", T_MC),
 "C02": ("model_checking", "Every drain/splice instance: every valid range in every RangeBounds form, every invalid range around the boundary and at usize::MAX, every next/next_back string (incl. calls after exhaustion), every per-item sink, replacement lengths 0..=3 from every source kind, erased and typed, from every reachable state; compared with Vec::drain/splice.", "4/C02", T_MC),
 "C14": ("model_checking", "Every iterator kind x every next/next_back string up to len+3 x every clone point (shared iterators), every sub-range for drain/splice, from every reachable state: len()/size_hint() equal the remaining count at every step, items match a VecDeque model, None forever after exhaustion, clones independent.", "4/C14", T_MC),
 "C03": ("model_checking", "The union of the element-wise, drain/splice, clone and lazy-clone operation instances (1-3 vectors exchanging elements, every sink kind) is executed from every reachable state with identity-tagged elements whose Drop/Clone report to a registry: after every edge no id is destroyed twice, destroyed while visible, visible twice or garbage, and after dropping all vectors nothing is alive; ZST / no-drop layouts are accounted by count / by value.", "4/C03", T_MC + "; identity registry oracle"),
 "C04": ("model_checking", "From every reachable state every checked entry point (push, insert at every index, splice item at every position, swap for four handle kinds, thirteen downcast entry points) is offered each of seven foreign types (incl. same-size/same-align ones): mismatch must panic / return None leaving the vector unchanged (valid for splice) and dropping the rejected value once; the real type must succeed; type/layout reports are checked.", "4/C04", T_MC + "; type-admission oracle"),
 "C05": ("model_checking", "The C01/C02/C08/C09 transition space is executed on an instrumented user backend (guard zones, poison, relocate on every capacity change, quarantine, Mem event log) and on Heap under an instrumented global allocator with the same features; after every edge guard zones, quarantined blocks and the Mem lifecycle (one build with the element layout, one release, nothing after release) are checked.", "4/C05", T_MC + "; instrumented-storage oracle"),
 "C07": ("model_checking", "For every removal handle and every drain/splice range x consumption prefix x forget stage (iterator, last yielded item, both), mem::forget is applied on the real vector from every reachable state, then one of eleven follow-up operations and drop: prefix unchanged, survivors unique live originals, yielded items (moved into another vector) not visible again, no double drop.", "4/C07", T_MC + "; forget at every stage"),
 "C08": ("model_checking", "From every reachable state: clone() (clone count == len, contents are clones in order, disjoint storage) followed by each of eleven operations on either side with the other side unchanged; clone_empty and clone_empty_in for five target backends, each required to accept, clone and destroy values.", "4/C08", T_MC),
 "C09": ("model_checking", "Every cloneable source kind (ElementRef, ElementMut, pop/remove/swap_remove handle, drained element) x chain depth 1..3 x 0..3 consumptions x {push, insert front, insert middle, downcast} x unconsumed copies, from every reachable state: Clone calls == consumptions exactly, nothing destroyed, destination holds clones of the source, source still usable afterwards.", "4/C09", T_MC + "; clone counter oracle"),
 "C13": ("model_checking", "Every accessor x index 0..=len+1; every (writer kind, reader kind) pair out of 8 x 6 view kinds at every index; swap for every admissible pairing of six value-handle kinds in both dispatch orders; from every reachable state.", "4/C13", T_MC),
 "C10": ("model_checking", "From every reachable (len,cap) state: reserve / reserve_exact / shrink_to with every argument 0..=L+2, shrink_to_fit, with_capacity, through erased and typed receivers, interleaved with every element-wise operation (same BFS): the inequalities of the statement, no-op = same capacity, same base pointer and no storage event, contents unchanged; a 2^16 push run with a logarithmic bound on reallocation events at every power-of-two prefix; plus a subprocess sweep of huge arguments at the usize / isize overflow boundaries.", "4/C10", T_MC + "; exhaustive argument sweep at overflow boundaries"),
 "C18": ("model_checking", "Every Heap transition of the C01/C02/C08/C10 families runs under the logging global allocator (layout table, guard zones, always-moving realloc, quarantine): after every edge at most one block per vector, none while capacity x size == 0, block size/alignment sufficient, realloc/dealloc present the recorded layout, nothing allocated after drop; a subprocess sweep sends capacity requests at the isize/usize overflow boundaries and fails if an invalid layout reaches the allocator.", "4/C18", T_MC + "; allocator event-log oracle"),
 "C06": ("fault_enumeration", "For every (state, operation instance) of the element-wise, drain/splice and clone families: a fault-free run counts the N user-code invocations inside the library (element Drop, element Clone, replacement-iterator next), then for EVERY k in 1..=N the k-th invocation panics; separately every splice with a replacement iterator whose len() lies by -2..=+2. After catch_unwind: no double drop, every visible element alive, intact and unique, guard zones intact, a follow-up battery (typed push/insert/pop/remove, clear) behaves like Vec, vectors drop cleanly. Leaks are permitted.", "4/C06", "exhaustive fault enumeration (every k-th user-code call panics) over the model-checked transition space"),
}
NOT_YET = "check not built yet (see DESIGN.md implementation order)"

m = {"version": 1, "setup_cmd": "./setup.sh",
     "hooks": {"guard": "any_vec_verif",
               "enable": "none needed: every observation point is public API, a user-defined MemBuilder/Mem, the element type's Drop/Clone, or the harness's #[global_allocator]; no hook code is compiled into /repo (the cfg name is reserved)",
               "baseline_off_cmd": "cd /repo && cargo test --workspace --no-fail-fast --offline", "source_commits": [], "add_only": True},
     "engines": [{"name": "anyvec-mc", "path": "mc/", "serves_properties": [p for p in props if p in CHECKS and p not in ("C15", "C16")],
                  "kind_free_text": "stateright 0.31 explicit-state BFS; next_state builds the real AnyVec for the abstract state and executes the operation instance on it and on a Vec+registry reference model; one process per configuration"}],
     "checks": [], "notes": "see DESIGN.md; known findings and repaired defects are listed in known_findings.txt",
     "not_applicable": []}
for p in props:
    if p in CHECKS:
        lvl, text, ref, tech = CHECKS[p]
        m["checks"].append({"property_id": p, "quick_cmd": f"./check {p} --tier quick", "thorough_cmd": f"./check {p} --tier thorough",
                            "evidence_file": f"/verif/evidence/{p}.json", "replay_cmd_template": f"./check {p} --replay {{path}}", "engine": "anyvec-mc",
                            "level_claimed": {"category": lvl, "text": text, "design_ref": ref}, "level_note": MC_NOTE, "technique": tech})
    else:
        m["not_applicable"].append({"property_id": p, "reason": NOT_YET})
json.dump(m, open(os.path.join(ROOT, "MANIFEST.json"), "w"), indent=1)
print("MANIFEST.json:", len(m["checks"]), "checks,", len(m["not_applicable"]), "not applicable")
