#!/bin/bash
# usage: tools/fix_regress.sh [out.jsonl]
# "A fixed entry suppresses nothing": for every `fixed:` line of known_findings.txt, take a pristine copy of /repo HEAD outside
# /repo and /verif, reverse-apply that one fix commit (the defect returns, everything else stays repaired) and run the quick check
# of the property named in the line against the copy (ANYVEC_SRC). Expected: exit 1 with a VIOLATION line, every time.
# Development aid, not a registered check; nothing in /repo is touched.
set -u
out=${1:-/verif/notes/fix_regress.jsonl}; : > $out
grep "^fixed:" /verif/known_findings.txt | while read -r _ prop commit rest; do
  prop=${prop#property=}
  cp=/tmp/fr_$commit; rm -rf $cp; mkdir -p $cp
  git -C /repo archive HEAD | tar -x -C $cp
  if ! git -C /repo show $commit -- src | (cd $cp && patch -R -p1 -s); then echo "{\"commit\":\"$commit\",\"property\":\"$prop\",\"status\":\"revert-does-not-apply\"}" >> $out; rm -rf $cp; continue; fi
  o=$(ANYVEC_SRC=$cp /verif/check $prop 2>&1); rc=$?
  n=$(echo "$o" | grep -c "^VIOLATION")
  first=$(echo "$o" | grep -A1 "^VIOLATION" | sed -n 2p | cut -c1-200)
  echo "fix $commit ($prop): rc=$rc violations=$n $first"
  python3 -c 'import json,sys; print(json.dumps({"commit":sys.argv[1],"property":sys.argv[2],"rc":int(sys.argv[3]),"violations":int(sys.argv[4]),"first":sys.argv[5],"status":"detected" if sys.argv[3]=="1" else "NOT-DETECTED"}))' "$commit" "$prop" "$rc" "$n" "$first" >> $out
  tag=$(python3 -c "import hashlib,sys; print(hashlib.sha1(sys.argv[1].encode()).hexdigest()[:8])" $cp)
  rm -rf $cp /verif/target/alt-$tag
done
