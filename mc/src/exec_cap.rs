//! Capacity family (C10): reserve / reserve_exact / shrink_to / shrink_to_fit / with_capacity, amortised growth.

use any_vec::SatisfyTraits;

use crate::caps::{TrX, BK, MX};
use crate::elem::{self, Elem};
use crate::exec::{guarded, Caught, Out, World};
use crate::galloc;
use crate::track;
use crate::types::*;

pub const PUSH_RUN: usize = 1 << 16;

fn realloc_events<M: MX>() -> u64 {
    match M::KIND {
        BK::Track | BK::TrackFixed => track::with_ts(|ts| ts.relocations as u64),
        _ => galloc::with_as(|st| (st.allocs + st.reallocs + st.deallocs) as u64),
    }
}

impl<T: Elem + SatisfyTraits<Tr>, M: MX, Tr: TrX + ?Sized> World<T, M, Tr> {
    pub fn do_cap(&mut self, api: Api, call: CapCall, n: usize, out: &mut Out) {
        if !M::RESIZABLE { out.outcome.push_str("n/a"); return; }
        let len = self.ma.len();
        let cap = self.a.capacity();
        if call == CapCall::WithCapacity {
            match guarded(|| M::with_capacity::<T, Tr>(n)) {
                Ok(v) => {
                    if v.capacity() < n { out.fail(Class::Cap, "with-capacity-small", format!("with_capacity({n}) gave capacity {}", v.capacity())); }
                    if v.len() != 0 { out.fail(Class::Cap, "with-capacity-len", format!("with_capacity({n}) gave len {}", v.len())); }
                    let _ = guarded(move || drop(v));
                    out.outcome.push_str("ok");
                }
                Err(Caught::Injected) => out.faulted = true,
                Err(Caught::Panic(m)) => out.fail(Class::Cap, "unexpected-panic", format!("with_capacity({n}) panicked: {m}")),
            }
            return;
        }
        if call == CapCall::PushRun { if M::AMORTISED { self.do_push_run(out); } else { out.outcome.push_str("n/a"); } return; }
        let base0 = self.a.downcast_ref::<T>().unwrap().as_ptr() as usize;
        let ev0 = realloc_events::<M>();
        let a = &mut self.a;
        let r = guarded(|| match api {
            Api::Erased => M::cap_call(a, call, n),
            Api::Typed => { let mut t = a.downcast_mut::<T>().unwrap(); M::cap_call_typed(&mut *t, call, n) }
        });
        match r {
            Err(Caught::Injected) => { out.faulted = true; return; }
            Err(Caught::Panic(m)) => { out.fail(Class::Cap, "unexpected-panic", format!("{call:?}({n}) on len {len} cap {cap} panicked: {m}")); return; }
            Ok(()) => {}
        }
        let cap2 = self.a.capacity();
        let base1 = self.a.downcast_ref::<T>().unwrap().as_ptr() as usize;
        let ev = realloc_events::<M>() - ev0;
        match call {
            CapCall::Reserve | CapCall::ReserveExact => {
                if cap2 < len + n { out.fail(Class::Cap, "reserve-too-small", format!("{call:?}({n}) on len {len}: capacity {cap2} < {}", len + n)); }
                if cap >= len + n {
                    if cap2 != cap { out.fail(Class::Cap, "reserve-noop-changed-cap", format!("{call:?}({n}) with sufficient capacity {cap} (len {len}) changed capacity to {cap2}")); }
                    if base1 != base0 || ev != 0 { out.fail(Class::Cap, "reserve-noop-reallocated", format!("{call:?}({n}) with sufficient capacity {cap} (len {len}) reallocated ({ev} storage event(s), base {base0:#x} -> {base1:#x})")); }
                    out.outcome.push_str("noop");
                } else { out.outcome.push_str("grew"); }
            }
            CapCall::ShrinkTo | CapCall::ShrinkToFit => {
                let m = if call == CapCall::ShrinkToFit { 0 } else { n };
                let bound = std::cmp::max(len, m);
                if cap2 > cap { out.fail(Class::Cap, "shrink-grew", format!("{call:?}({m}) on len {len} cap {cap} increased capacity to {cap2}")); }
                if cap2 < std::cmp::min(cap, bound) { out.fail(Class::Cap, "shrink-too-far", format!("{call:?}({m}) on len {len} cap {cap} left capacity {cap2} < {}", std::cmp::min(cap, bound))); }
                if M::KIND == BK::Heap && cap2 != std::cmp::min(cap, bound) { out.fail(Class::Cap, "shrink-not-exact", format!("{call:?}({m}) on len {len} cap {cap} (Heap) left capacity {cap2}, want {}", std::cmp::min(cap, bound))); }
                out.outcome.push_str(if cap2 < cap { "shrunk" } else { "kept" });
            }
            _ => unreachable!(),
        }
    }

    /// amortisation: 2^16 pushes, reallocation events logarithmic at every power-of-two prefix
    fn do_push_run(&mut self, out: &mut Out) {
        let len0 = self.ma.len();
        elem::with_reg(|r| { r.untracked = true; r.bulk_counter = 0; });
        let ev0 = realloc_events::<M>();
        let a = &mut self.a;
        let mut worst: Option<(usize, u64, u64)> = None;
        let mut prev_ev = 0u64;
        const PER_OCTAVE: u64 = 5; // growth factor >= ~1.15 passes; a constant-increment policy fails once the run is long enough
        let r = guarded(|| {
            let mut t = a.downcast_mut::<T>().unwrap();
            for i in 1..=PUSH_RUN {
                t.push(T::fresh());
                if i.is_power_of_two() {
                    let ev = { let _w = elem::WindowOff::new(); realloc_events::<M>() - ev0 };
                    // logarithmic in total, and (geometric growth) a constant number of reallocations per doubling of the length
                    let bound = 4 * ((i + 1) as f64).log2().ceil() as u64 + 8;
                    if ev > bound && worst.is_none() { worst = Some((i, ev, bound)); }
                    if i >= 16 && ev - prev_ev > PER_OCTAVE && worst.is_none() { worst = Some((i, ev - prev_ev, PER_OCTAVE)); }
                    prev_ev = ev;
                }
            }
        });
        let ok_contents = {
            let s = self.a.downcast_ref::<T>().unwrap();
            let sl = s.as_slice();
            sl.len() == len0 + PUSH_RUN && (T::SIZE == 0 || (0..PUSH_RUN).step_by(97).all(|i| sl[len0 + i].id() == (i % 199) as u16 && sl[len0 + i].intact()))
        };
        // remove the bulk values again (untracked), keep the original prefix
        { let mut t = self.a.downcast_mut::<T>().unwrap(); while t.len() > len0 { let v = t.pop(); std::mem::forget(v); } }
        elem::with_reg(|r| { r.untracked = false; });
        match r {
            Err(Caught::Injected) => out.faulted = true,
            Err(Caught::Panic(m)) => out.fail(Class::Cap, "unexpected-panic", format!("push run panicked: {m}")),
            Ok(()) => {
                if let Some((i, ev, bound)) = worst { out.fail(Class::Cap, "growth-not-amortised", format!("{ev} reallocation events (bound {bound}) at / in the doubling ending at {i} pushes: growth is not geometric")); }
                if !ok_contents { out.fail(Class::Vec, "push-run-contents", "contents after the push run are not the pushed values in order".into()); }
                out.outcome.push_str("ok");
            }
        }
    }
}
