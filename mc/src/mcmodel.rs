//! stateright model: states are abstract vector states (len, cap, spare mode); every action is an operation
//! instance executed on the REAL vector built canonically for the state (DESIGN.md §2, §3.7).

use std::collections::{BTreeMap, BTreeSet, HashSet};
use std::hash::{Hash, Hasher};
use std::sync::{Arc, Mutex};

use stateright::{Model, Property};

use crate::edges;
use crate::exec::{Out, Runner};
use crate::types::*;

#[derive(Clone, Debug, PartialEq, Eq, Hash)]
pub struct McState { pub len: u16, pub cap: u16, pub spare: Spare, pub bad: Option<u64> }

impl McState { pub fn wide(&self, lmax: usize) -> bool { self.len as usize > lmax } }

#[derive(Clone, Debug)]
pub struct Violation { pub sig: String, pub detail: String, pub state: String, pub edge: String, pub fault_at: u32 }

#[derive(Default)]
pub struct Stats {
    pub edges: u64,
    pub fault_runs: u64,
    pub families: BTreeMap<String, u64>,
    pub outcomes: BTreeSet<String>,
    pub samples: Vec<String>,
    pub known_hits: BTreeMap<String, (u64, String)>,
    pub violations: Vec<Violation>,
    pub violation_sigs: HashSet<String>,
    pub machinery: Vec<String>,
    /// order-independent digest over all (state, edge, outcome, successor) tuples (C19: compared between feature sets)
    pub digest: u64,
}

pub struct VecModel {
    pub runner: Arc<dyn Runner>,
    pub prop: Prop,
    pub tier: Tier,
    pub lmax: usize,
    pub cmax: usize,
    pub known: Arc<HashSet<String>>,
    pub stats: Arc<Mutex<Stats>>,
    pub inits: Vec<McState>,
    pub faults: bool,
    /// development aid: collect every signature instead of stopping at the first discovery
    pub keep_going: bool,
}

pub fn signature(prop: Prop, f: &Fail, e: &Edge) -> String {
    format!("{}:{}:{}/{}/{}/{}/{}", prop.name(), f.class.name(), f.kind, e.family(), e.api(), e.src_kind(), e.sink_kind())
}

fn h64(s: &str) -> u64 { let mut h = std::collections::hash_map::DefaultHasher::new(); s.hash(&mut h); h.finish() }

impl VecModel {
    /// crash marker: what is about to run (config | state | edge | fault | signature stem)
    fn mark(&self, s: &McState, e: &Edge, fault_at: u32) {
        crate::crash::set_current(&format!("config={} | state=len={} cap={} spare={:?} | edge={:?} | fault_at={} | stem={}/{}/{}/{}",
            self.runner.name(), s.len, s.cap, s.spare, e, fault_at, e.family(), e.api(), e.src_kind(), e.sink_kind()));
    }
    /// classify the failures of one execution; returns the hash of the first unlisted signature
    fn classify(&self, st: &McState, e: &Edge, out: &Out, fault_at: u32, stats: &mut Stats) -> Option<u64> {
        let mut bad = None;
        for f in &out.fails {
            if f.class == Class::Machinery { stats.machinery.push(format!("{} {:?} {:?}: {} {}", self.runner.name(), st, e, f.kind, f.detail)); continue; }
            if !edges::reports(self.prop, f.class, f.kind, e) { continue; }
            let sig = signature(self.prop, f, e);
            if self.known.contains(&sig) {
                let ent = stats.known_hits.entry(sig).or_insert((0, f.detail.clone()));
                ent.0 += 1;
                continue;
            }
            if stats.violation_sigs.insert(sig.clone()) {
                stats.violations.push(Violation {
                    sig: sig.clone(), detail: f.detail.clone(),
                    state: format!("len={} cap={} spare={:?}", st.len, st.cap, st.spare), edge: format!("{e:?}"), fault_at,
                });
            }
            if bad.is_none() && !self.keep_going { bad = Some(h64(&sig)); }
        }
        bad
    }
}

impl Model for VecModel {
    type State = McState;
    type Action = Edge;

    fn init_states(&self) -> Vec<McState> { self.inits.clone() }

    fn actions(&self, s: &McState, actions: &mut Vec<Edge>) {
        if s.bad.is_some() { return; }
        let st = St { len: s.len, cap: s.cap, spare: s.spare };
        actions.extend(edges::edges_for(self.prop, self.tier, &*self.runner, &st));
    }

    fn next_state(&self, s: &McState, e: Edge) -> Option<McState> {
        let st = St { len: s.len, cap: s.cap, spare: s.spare };
        self.mark(s, &e, 0);
        let out = self.runner.run(&st, &e, 0);
        crate::crash::clear_current();
        let mut stats = self.stats.lock().unwrap();
        stats.edges += 1;
        *stats.families.entry(e.family().to_string()).or_insert(0) += 1;
        // (the Heap target of clone_empty_in only exists with the alloc feature: not part of the cross-feature digest)
        if !matches!(e, Edge::CloneEmptyIn { target: 0, .. }) { stats.digest = stats.digest.wrapping_add(h64(&format!("{}|{:?}|{:?}|{}|{:?}|{}", self.runner.name(), s, e, out.outcome, out.next, out.fails.len()))); }
        let oc = format!("{}:{}", e.family(), if out.fails.is_empty() { out.outcome.as_str() } else { "FAIL" });
        if stats.outcomes.insert(oc) && stats.samples.len() < 40 {
            stats.samples.push(format!("{} (len={},cap={},{:?}) --{:?}--> {} next={:?}", self.runner.name(), s.len, s.cap, s.spare, e, out.outcome, out.next));
        }
        let mut bad = self.classify(s, &e, &out, 0, &mut stats);
        // lying iterators and injected panics are separate dimensions of the quantifier (a lie that makes splice exceed a fixed
        // capacity panics by contract; a second panic while unwinding would abort the process)
        let lying = matches!(e, Edge::Splice { lie, .. } if lie != 0);
        if self.faults && bad.is_none() && !lying {
            let n = out.user_calls;
            drop(stats);
            for k in 1..=n {
                self.mark(s, &e, k);
                let fo = self.runner.run(&st, &e, k);
                crate::crash::clear_current();
                let mut stats = self.stats.lock().unwrap();
                stats.fault_runs += 1;
                if let Some(b) = self.classify(s, &e, &fo, k, &mut stats) { bad = Some(b); break; }
            }
        }
        if let Some(b) = bad { return Some(McState { len: s.len, cap: s.cap, spare: s.spare, bad: Some(b) }); }
        // wide states (beyond the length bound) are leaves: every edge from them is executed, successors are not expanded
        if s.wide(self.lmax) { return None; }
        let (l, c) = out.next?;
        let c = c.min(u16::MAX as usize) as u16;
        let ns = McState { len: l as u16, cap: c, spare: s.spare, bad: None };
        if ns == *s { None } else { Some(ns) }
    }

    fn properties(&self) -> Vec<Property<Self>> {
        vec![Property::always("no unlisted violation", |_, s: &McState| s.bad.is_none())]
    }

    fn within_boundary(&self, s: &McState) -> bool {
        if s.bad.is_some() { return true; }
        let cap_ok = (s.cap as usize) <= self.cmax || self.runner.fixed_cap().is_some();
        // wide initial states are inside the boundary (so that their edges run); their successors never exist (see next_state)
        if s.wide(self.lmax) { return self.inits.contains(s); }
        (s.len as usize) <= self.lmax && cap_ok
    }
}
