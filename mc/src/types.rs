//! Shared plain-data types: edges (operation instances), value sources and sinks, model values, failures.

use std::fmt;

#[derive(Clone, Copy, Debug, PartialEq, Eq, Hash, PartialOrd, Ord)]
pub enum Prop { C01, C02, C03, C04, C05, C06, C07, C08, C09, C10, C11, C12, C13, C14, C17, C18, C19 }

impl Prop {
    pub fn parse(s: &str) -> Option<Prop> {
        use Prop::*;
        Some(match s {
            "C01" => C01, "C02" => C02, "C03" => C03, "C04" => C04, "C05" => C05, "C06" => C06, "C07" => C07,
            "C08" => C08, "C09" => C09, "C10" => C10, "C11" => C11, "C12" => C12, "C13" => C13, "C14" => C14,
            "C17" => C17, "C18" => C18, "C19" => C19, _ => return None,
        })
    }
    pub fn name(self) -> &'static str {
        use Prop::*;
        match self {
            C01 => "C01", C02 => "C02", C03 => "C03", C04 => "C04", C05 => "C05", C06 => "C06", C07 => "C07",
            C08 => "C08", C09 => "C09", C10 => "C10", C11 => "C11", C12 => "C12", C13 => "C13", C14 => "C14",
            C17 => "C17", C18 => "C18", C19 => "C19",
        }
    }
}

#[derive(Clone, Copy, Debug, PartialEq, Eq, Hash)]
pub enum Tier { Quick, Thorough }

#[derive(Clone, Copy, Debug, PartialEq, Eq, Hash)]
pub enum Api { Erased, Typed }

/// How spare slots `[len, cap)` look when the canonical state is constructed (DESIGN.md §3.4).
#[derive(Clone, Copy, Debug, PartialEq, Eq, Hash)]
pub enum Spare { Pristine, Stale, Scrub }

/// Where a pushed / inserted / spliced-in value comes from.
#[derive(Clone, Copy, Debug, PartialEq, Eq, Hash)]
pub enum Src {
    /// `AnyValueWrapper<T>` (statically typed path)
    W,
    /// `AnyValueRaw` (ptr, size, typeid): `Unknown` path
    R,
    /// `AnyValueTypelessRaw` through `*_unchecked`
    UT,
    /// `AnyValueSizelessRaw` through `*_unchecked`
    US,
    /// removal handles of auxiliary vector B
    BPop, BRemove(u8), BSwapRemove(u8),
    /// drained element of B taken from the front / back of `drain(0..2)`
    BDrainF, BDrainB,
    /// lazy clone chains (depth 1..=3) over an element of B seen through ...
    LzRef(u8, u8), LzMut(u8, u8), LzPop(u8), LzRemove(u8, u8), LzSwapRemove(u8, u8), LzDrained(u8),
}
impl Src {
    pub fn is_lazy(self) -> bool { matches!(self, Src::LzRef(..) | Src::LzMut(..) | Src::LzPop(..) | Src::LzRemove(..) | Src::LzSwapRemove(..) | Src::LzDrained(..)) }
    pub fn needs_b(self) -> bool { !matches!(self, Src::W | Src::R | Src::UT | Src::US) }
    pub fn kind(self) -> &'static str {
        match self {
            Src::W => "wrapper", Src::R => "raw", Src::UT => "typeless-unchecked", Src::US => "sizeless-unchecked",
            Src::BPop => "pop-handle", Src::BRemove(_) => "remove-handle", Src::BSwapRemove(_) => "swap_remove-handle",
            Src::BDrainF | Src::BDrainB => "drained-element",
            Src::LzRef(..) => "lazy(ElementRef)", Src::LzMut(..) => "lazy(ElementMut)", Src::LzPop(_) => "lazy(pop-handle)",
            Src::LzRemove(..) => "lazy(remove-handle)", Src::LzSwapRemove(..) => "lazy(swap_remove-handle)", Src::LzDrained(_) => "lazy(drained)",
        }
    }
}

/// What happens to a removed / yielded value.
#[derive(Clone, Copy, Debug, PartialEq, Eq, Hash)]
pub enum Sink {
    Drop,
    /// `downcast::<T>()`, value compared, then dropped
    Downcast,
    /// `downcast_ref::<T>()` read, then handle dropped
    DowncastRef,
    /// `unsafe downcast_unchecked::<T>()` (no type test), value compared, then dropped
    DowncastUnchecked,
    /// `downcast_mut` + in-place mutation, then moved into B
    MutMoveB,
    /// erased push into B
    PushB,
    /// erased insert(0) into B
    InsertB0,
    /// swap with an owned wrapper; handle then dropped, wrapper's (old) value observed
    SwapW,
    /// swap with a raw (untyped) value
    SwapRaw,
    /// k lazy clones pushed into B, then handle dropped
    LazyB(u8),
    /// `mem::forget` (C07)
    Forget,
}
impl Sink {
    pub fn kind(self) -> &'static str {
        match self {
            Sink::Drop => "drop", Sink::Downcast => "downcast", Sink::DowncastRef => "downcast_ref", Sink::DowncastUnchecked => "downcast_unchecked", Sink::MutMoveB => "mutate+move",
            Sink::PushB => "push-other", Sink::InsertB0 => "insert-other", Sink::SwapW => "swap-wrapper", Sink::SwapRaw => "swap-raw",
            Sink::LazyB(_) => "lazy-clone", Sink::Forget => "forget",
        }
    }
    pub fn needs_clone(self) -> bool { matches!(self, Sink::LazyB(_)) }
}

#[derive(Clone, Copy, Debug, PartialEq, Eq, Hash)]
/// Index / IndexMut: typed view `as_slice()[i]` / `as_mut_slice()[i]` (the slice's own bound check); on the erased API: `at(i)` read through `as_bytes_ptr` / `at_mut(i)` through `as_bytes_mut_ptr`
pub enum GetKind { Get, At, GetMut, AtMut, GetUncheckedInRange, Index, IndexMut }

#[derive(Clone, Copy, Debug, PartialEq, Eq, Hash)]
pub enum IterKind { Iter, IterMut, IntoIterRef, IntoIterMut }

/// RangeBounds form used to express an intended `start..end`.
#[derive(Clone, Copy, Debug, PartialEq, Eq, Hash)]
pub enum Form { Excl, Incl, To, ToIncl, From, Full, ExStart, ExStartIncl, RangeStruct }

/// next / next_back choice string: `n` choices, bit i set = next_back.
#[derive(Clone, Copy, PartialEq, Eq, Hash)]
pub struct Pat { pub n: u8, pub bits: u16 }
impl Pat {
    pub fn back(self, i: usize) -> bool { (self.bits >> i) & 1 == 1 }
    pub fn none() -> Pat { Pat { n: 0, bits: 0 } }
    pub fn front(n: u8) -> Pat { Pat { n, bits: 0 } }
}
impl fmt::Debug for Pat {
    fn fmt(&self, f: &mut fmt::Formatter<'_>) -> fmt::Result {
        write!(f, "\"")?;
        for i in 0..self.n as usize { write!(f, "{}", if self.back(i) { 'B' } else { 'F' })?; }
        write!(f, "\"")
    }
}

/// Replacement-iterator item source for splice.
#[derive(Clone, Copy, Debug, PartialEq, Eq, Hash)]
pub enum RSrc { W, R, BDrain, LzRefs }

#[derive(Clone, Copy, Debug, PartialEq, Eq, Hash)]
pub enum CapCall { Reserve, ReserveExact, ShrinkTo, ShrinkToFit, WithCapacity, PushRun }

/// index encoding: 255 = usize::MAX, 254 = usize::MAX - 1
pub fn ix(v: u8) -> usize { match v { 255 => usize::MAX, 254 => usize::MAX - 1, _ => v as usize } }

#[derive(Clone, Copy, Debug, PartialEq, Eq, Hash)]
pub enum OverflowRange { EndInclMax, StartExclMax, StartExclMaxEndIncl }

/// One operation instance. Everything is small integers so that stateright can hash / clone it freely.
#[derive(Clone, Copy, Debug, PartialEq, Eq, Hash)]
pub enum Edge {
    Push(Api, Src),
    Insert(Api, u8, Src),
    Pop(Api, Sink),
    Remove(Api, u8, Sink),
    SwapRemove(Api, u8, Sink),
    Clear(Api),
    Get(Api, GetKind, u8),
    IterAll(Api, IterKind),
    /// intended range a..b expressed in `form`, consumed with `pat`, each yielded item to `sink`
    Drain { api: Api, a: u8, b: u8, form: Form, pat: Pat, sink: Sink },
    /// as Drain, plus `rn` replacement items from `rsrc`; `lie` = ExactSizeIterator::len() offset (C06)
    Splice { api: Api, a: u8, b: u8, form: Form, pat: Pat, sink: Sink, rn: u8, rsrc: RSrc, lie: i8 },
    /// range whose bound computation overflows (must panic before anything changes)
    DrainOverflow(Api, OverflowRange),
    SpliceOverflow(Api, OverflowRange),
    /// std iterator adaptors (nth, nth_back, skip, step_by, rev, take, last, count, ...) applied to the library's iterators
    DrainAdapt { api: Api, a: u8, b: u8, op: u8 },
    SpliceAdapt { api: Api, a: u8, b: u8, op: u8, rn: u8 },
    IterAdapt { api: Api, kind: IterKind, op: u8 },
    /// three vectors exchanging elements in one step (C03): A.splice(a..b, B.drain(..rn)) with yielded items moved into C, etc.
    Three { variant: u8, a: u8, b: u8, rn: u8, pat: Pat },
    /// a real history of up to four operations on one vector, no reconstruction in between (codes index `edges::history_alphabet`, 255 = none)
    History { a: u8, b: u8, c: u8, d: u8 },
    /// iterator protocol (C14): kind, sub-range only for drain/splice, pattern, clone point
    IterProto { api: Api, kind: IterKind, pat: Pat, clone_at: u8 },
    Cap(Api, CapCall, u8),
    /// the vector itself is dropped (with fault enumeration: an element destructor panics inside the vector's own Drop)
    DropVec,
    /// the vector VALUE is moved to another address (inline storage moves with it), used there (`then`: follow-up op), moved back
    Relocate { slot: u8, then: u8 },
    /// one operation on a vector of `exec_huge::HUGE` (> 2^16) elements, from the empty state only
    Huge { op: u8 },
    CloneVec { then: u8 },
    CloneEmpty { then: u8 },
    CloneEmptyIn { target: u8, then: u8 },
    /// `Clone::clone_from` into a destination of kind `dst` (caps::foreign_vec_impl), then a follow-up on the result
    CloneFrom { dst: u8, then: u8 },
    /// forget-family (C07): the inner removal/range edge with a forget stage, then a follow-up
    ForgetHandle { op: u8, idx: u8, follow: u8 },
    ForgetRange { splice: bool, a: u8, b: u8, pat: Pat, stage: u8, rn: u8, follow: u8 },
    /// the typed view's drain / splice iterator forgotten after `pat` (yielded values are owned `T`s and dropped)
    ForgetRangeTyped { splice: bool, a: u8, b: u8, pat: Pat, rn: u8, follow: u8 },
    /// wrong-type family (C04)
    WrongPush(Src, u8), WrongInsert(u8, Src, u8), WrongSpliceItem { a: u8, b: u8, rn: u8, bad_at: u8, ty: u8 }, WrongSwap(u8, u8), WrongDowncast(u8, u8),
    TypeReports(u8),
    /// handle coherence (C13): writer kind, reader kind, index
    WriteRead { w: u8, r: u8, i: u8 },
    Swap { lhs: u8, rhs: u8, i: u8 },
    /// a USER-DEFINED `AnyValueMut` implementor (copy-on-write: shared read pointer, private write pointer) meets the vector
    UserValue { op: u8, i: u8 },
    /// lazy clone protocol (C09)
    Lazy { src: u8, j: u8, depth: u8, uses: u8, how: u8, copies: u8 },
    /// raw parts (C17)
    RawParts { variant: u8, then: u8 },
    /// byte views (C12)
    Bytes { variant: u8, k: u8 },
}

impl Edge {
    pub fn family(&self) -> &'static str {
        match self {
            Edge::Push(..) => "push", Edge::Insert(..) => "insert", Edge::Pop(..) => "pop", Edge::Remove(..) => "remove",
            Edge::SwapRemove(..) => "swap_remove", Edge::Clear(..) => "clear", Edge::Get(..) => "get", Edge::IterAll(..) => "iter",
            Edge::Drain { .. } => "drain", Edge::Splice { .. } => "splice", Edge::DrainOverflow(..) => "drain-overflow",
            Edge::SpliceOverflow(..) => "splice-overflow", Edge::IterProto { .. } => "iter-proto", Edge::History { .. } => "history", Edge::Three { .. } => "three-vectors", Edge::DrainAdapt { .. } => "drain-adaptor", Edge::SpliceAdapt { .. } => "splice-adaptor", Edge::IterAdapt { .. } => "iter-adaptor", Edge::Cap(..) => "capacity", Edge::Huge { .. } => "huge", Edge::Relocate { .. } => "relocate", Edge::DropVec => "drop-vector",
            Edge::CloneVec { .. } => "clone", Edge::CloneEmpty { .. } => "clone_empty", Edge::CloneEmptyIn { .. } => "clone_empty_in", Edge::CloneFrom { .. } => "clone_from",
            Edge::ForgetHandle { .. } => "forget-handle", Edge::ForgetRange { .. } => "forget-range", Edge::ForgetRangeTyped { .. } => "forget-range-typed",
            Edge::WrongPush(..) => "wrong-push", Edge::WrongInsert(..) => "wrong-insert", Edge::WrongSpliceItem { .. } => "wrong-splice",
            Edge::WrongSwap(..) => "wrong-swap", Edge::WrongDowncast(..) => "wrong-downcast", Edge::TypeReports(..) => "type-reports",
            Edge::WriteRead { .. } => "write-read", Edge::Swap { .. } => "swap", Edge::UserValue { .. } => "user-value", Edge::Lazy { .. } => "lazy",
            Edge::RawParts { .. } => "raw-parts", Edge::Bytes { .. } => "bytes",
        }
    }
    pub fn api(&self) -> &'static str {
        let a = match self {
            Edge::Push(a, _) | Edge::Insert(a, _, _) | Edge::Pop(a, _) | Edge::Remove(a, _, _) | Edge::SwapRemove(a, _, _)
            | Edge::Clear(a) | Edge::Get(a, _, _) | Edge::IterAll(a, _) | Edge::DrainOverflow(a, _) | Edge::SpliceOverflow(a, _)
            | Edge::Cap(a, _, _) => *a,
            Edge::Drain { api, .. } | Edge::Splice { api, .. } | Edge::IterProto { api, .. } | Edge::DrainAdapt { api, .. } | Edge::SpliceAdapt { api, .. } | Edge::IterAdapt { api, .. } => *api,
            _ => Api::Erased,
        };
        match a { Api::Erased => "erased", Api::Typed => "typed" }
    }
    pub fn src_kind(&self) -> &'static str {
        match self {
            Edge::Push(_, s) | Edge::Insert(_, _, s) | Edge::WrongPush(s, _) | Edge::WrongInsert(_, s, _) => s.kind(),
            Edge::Splice { rsrc, rn, .. } => if *rn == 0 { "-" } else { match rsrc { RSrc::W => "wrapper", RSrc::R => "raw", RSrc::BDrain => "drained-element", RSrc::LzRefs => "lazy(ElementRef)" } },
            _ => "-",
        }
    }
    pub fn sink_kind(&self) -> &'static str {
        match self {
            Edge::Pop(_, s) | Edge::Remove(_, _, s) | Edge::SwapRemove(_, _, s) => s.kind(),
            Edge::Drain { sink, .. } | Edge::Splice { sink, .. } => sink.kind(),
            _ => "-",
        }
    }
}

/// Model value: a known identity, or "a fresh clone of `parent`".
#[derive(Clone, Copy, Debug, PartialEq, Eq, Hash)]
pub enum Mv { Id(u16), CloneOf(u16) }

/// Oracle class of a failure; decides which property reports it.
#[derive(Clone, Copy, Debug, PartialEq, Eq, Hash)]
pub enum Class {
    /// sequence / length / returned values / panic expectation against std Vec
    Vec,
    /// identity registry: double drop, dead element visible, duplicate, leak
    Own,
    /// storage oracle of the instrumented backend
    Mem,
    /// allocator log oracle
    Alloc,
    /// type admission
    Type,
    /// capacity inequalities
    Cap,
    /// iterator protocol (size_hint, order, fused)
    Iter,
    /// harness self-check (abstraction / determinism) — machinery failure, never a verdict
    Machinery,
}
impl Class {
    pub fn name(self) -> &'static str {
        match self { Class::Vec => "vec", Class::Own => "own", Class::Mem => "mem", Class::Alloc => "alloc", Class::Type => "type",
            Class::Cap => "cap", Class::Iter => "iter", Class::Machinery => "machinery" }
    }
}

#[derive(Clone, Debug)]
pub struct Fail {
    pub class: Class,
    /// short stable kind, part of the signature (e.g. "seq-mismatch", "double-drop")
    pub kind: &'static str,
    /// human-readable details (concrete values)
    pub detail: String,
}

#[derive(Clone, Copy, Debug, PartialEq, Eq, Hash)]
pub struct St { pub len: u16, pub cap: u16, pub spare: Spare }
