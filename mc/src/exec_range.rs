//! Range families: drain / splice (C02), iterator protocol (C14), replacement iterators (incl. lying ones, C06).

use std::any::TypeId;
use std::collections::VecDeque;
use std::mem::{size_of, ManuallyDrop};
use std::ops::Bound;
use std::ptr::NonNull;

use any_vec::any_value::{AnyValue, AnyValueRaw, AnyValueWrapper};
use any_vec::element::ElementRef;
use any_vec::mem::MemBuilder;
use any_vec::ops::{Drain, Splice};
use any_vec::{AnyVec, SatisfyTraits};

use crate::caps::{PushC, TrX, MX};
use crate::elem::{self, Elem};
use crate::exec::{guarded, mv_match, Caught, Out, World};
use crate::types::*;

/// The offset a lying `ExactSizeIterator::len()` adds on its `call`-th invocation (0-based).
/// |lie| <= 2: the same offset every time. lie >= 10: an UNSTABLE liar, `UNSTABLE[lie - 10] = (first call, every later call)`.
pub const UNSTABLE: [(i8, i8); 6] = [(0, 1), (0, -1), (1, 0), (-1, 0), (1, -1), (-1, 1)];
pub fn lie_now(lie: i8, call: u32) -> i64 {
    if lie >= 10 { let (first, later) = UNSTABLE[(lie - 10) as usize % UNSTABLE.len()]; (if call == 0 { first } else { later }) as i64 } else { lie as i64 }
}

/// Replacement iterator over pre-created values (no heap). `lie` offsets `ExactSizeIterator::len()`.
/// `next()` is user code: it is a fault-injection point.
pub struct ReplT<T> { items: [Option<T>; 4], pos: usize, n: usize, lie: i8, calls: std::cell::Cell<u32> }
impl<T: Elem> ReplT<T> {
    pub fn new(n: usize, lie: i8) -> (Self, Vec<Mv>) {
        let mut items = [None, None, None, None];
        let mut ids = Vec::new();
        for i in 0..n { let v = T::fresh(); ids.push(Mv::Id(v.id())); items[i] = Some(v); }
        (ReplT { items, pos: 0, n, lie, calls: std::cell::Cell::new(0) }, ids)
    }
}
impl<T> Iterator for ReplT<T> {
    type Item = T;
    fn next(&mut self) -> Option<T> {
        elem::user_call_point();
        if self.pos >= self.n { return None; }
        let v = self.items[self.pos].take();
        self.pos += 1;
        v
    }
    fn size_hint(&self) -> (usize, Option<usize>) { let l = self.len(); (l, Some(l)) }
}
impl<T> ExactSizeIterator for ReplT<T> {
    // `len()` is user code too: a fault-injection point
    fn len(&self) -> usize { elem::user_call_point(); let real = (self.n - self.pos) as i64; let c = self.calls.get(); self.calls.set(c + 1); std::cmp::max(0, real + lie_now(self.lie, c)) as usize }
}

/// Replacement iterator yielding `AnyValueRaw` pointing into caller-owned slots.
pub struct ReplRaw<T> { base: *mut T, pos: usize, n: usize, lie: i8, calls: std::cell::Cell<u32> }
impl<T: 'static> Iterator for ReplRaw<T> {
    type Item = AnyValueRaw;
    fn next(&mut self) -> Option<AnyValueRaw> {
        elem::user_call_point();
        if self.pos >= self.n { return None; }
        let p = unsafe { NonNull::new_unchecked(self.base.add(self.pos)).cast::<u8>() };
        self.pos += 1;
        Some(unsafe { AnyValueRaw::new(p, size_of::<T>(), TypeId::of::<T>()) })
    }
    fn size_hint(&self) -> (usize, Option<usize>) { let l = self.len(); (l, Some(l)) }
}
impl<T: 'static> ExactSizeIterator for ReplRaw<T> {
    fn len(&self) -> usize { elem::user_call_point(); let real = (self.n - self.pos) as i64; let c = self.calls.get(); self.calls.set(c + 1); std::cmp::max(0, real + lie_now(self.lie, c)) as usize }
}

pub fn range_valid(a: usize, b: usize, len: usize) -> bool { a <= b && b <= len }

/// can `form` express the intended (a, b) on a vector of length `len`?
pub fn form_ok(form: Form, a: usize, b: usize, len: usize) -> bool {
    match form {
        Form::Excl | Form::RangeStruct => true,
        Form::Incl => b >= 1,
        Form::To => a == 0,
        Form::ToIncl => a == 0 && b >= 1,
        Form::From => b == len,
        Form::Full => a == 0 && b == len,
        Form::ExStart => a >= 1,
        Form::ExStartIncl => a >= 1 && b >= 1,
    }
}

fn bounds(form: Form, a: usize, b: usize) -> (Bound<usize>, Bound<usize>) {
    match form {
        Form::Excl | Form::RangeStruct => (Bound::Included(a), Bound::Excluded(b)),
        Form::Incl => (Bound::Included(a), Bound::Included(b - 1)),
        Form::To => (Bound::Unbounded, Bound::Excluded(b)),
        Form::ToIncl => (Bound::Unbounded, Bound::Included(b - 1)),
        Form::From => (Bound::Included(a), Bound::Unbounded),
        Form::Full => (Bound::Unbounded, Bound::Unbounded),
        Form::ExStart => (Bound::Excluded(a - 1), Bound::Excluded(b)),
        Form::ExStartIncl => (Bound::Excluded(a - 1), Bound::Included(b - 1)),
    }
}

fn overflow_bounds(o: OverflowRange) -> (Bound<usize>, Bound<usize>) {
    match o {
        OverflowRange::EndInclMax => (Bound::Unbounded, Bound::Included(usize::MAX)),
        OverflowRange::StartExclMax => (Bound::Excluded(usize::MAX), Bound::Unbounded),
        OverflowRange::StartExclMaxEndIncl => (Bound::Excluded(usize::MAX), Bound::Included(usize::MAX)),
    }
}

/// erased drain through the genuine std range types
fn mk_drain<'x, Tr: ?Sized + TrX, M: MemBuilder>(v: &'x mut AnyVec<Tr, M>, form: Form, a: usize, b: usize) -> Drain<'x, Tr, M> {
    match form {
        Form::Excl => v.drain(a..b),
        Form::RangeStruct => v.drain(std::ops::Range { start: a, end: b }),
        Form::Incl => v.drain(a..=(b - 1)),
        Form::To => v.drain(..b),
        Form::ToIncl => v.drain(..=(b - 1)),
        Form::From => v.drain(a..),
        Form::Full => v.drain(..),
        Form::ExStart | Form::ExStartIncl => v.drain(bounds(form, a, b)),
    }
}

fn mk_splice<'x, Tr: ?Sized + TrX, M: MemBuilder, I: ExactSizeIterator>(v: &'x mut AnyVec<Tr, M>, form: Form, a: usize, b: usize, it: I) -> Splice<'x, Tr, M, I>
where I::Item: AnyValue
{
    match form {
        Form::Excl => v.splice(a..b, it),
        Form::RangeStruct => v.splice(std::ops::Range { start: a, end: b }, it),
        Form::Incl => v.splice(a..=(b - 1), it),
        Form::To => v.splice(..b, it),
        Form::ToIncl => v.splice(..=(b - 1), it),
        Form::From => v.splice(a.., it),
        Form::Full => v.splice(.., it),
        Form::ExStart | Form::ExStartIncl => v.splice(bounds(form, a, b), it),
    }
}

/// What one step of a range iterator showed.
pub struct StepObs { pub len_before: usize, pub hint: (usize, Option<usize>), pub item: Option<Option<u16>> }

/// Drive an erased range iterator with `pat`, sinking each yielded element.
fn drive_erased<'x, T, Tr, MS, MB, It>(it: &mut It, pat: Pat, sink: Sink, mut b: Option<&mut AnyVec<Tr, MB>>, fails: &mut Vec<Fail>) -> Vec<StepObs>
where
    T: Elem, Tr: ?Sized + TrX, MS: MemBuilder + 'x, MB: MX,
    It: DoubleEndedIterator<Item = any_vec::element::Element<'x, Tr, MS>> + ExactSizeIterator,
{
    let mut obs = { let _w = elem::WindowOff::new(); Vec::with_capacity(pat.n as usize + 1) };
    for i in 0..pat.n as usize {
        let len_before = it.len();
        let hint = it.size_hint();
        let e = if pat.back(i) { it.next_back() } else { it.next() };
        let item = match e {
            None => None,
            Some(e) => Some(match sink {
                Sink::LazyB(k) => { let bb = b.as_deref_mut().unwrap(); for _ in 0..k { Tr::lz_element(&e, 1, bb, PushC); } drop(e); None }
                s => sink_elem::<T, Tr, MB, _>(e, s, b.as_deref_mut(), fails),
            }),
        };
        obs.push(StepObs { len_before, hint, item });
    }
    obs.push(StepObs { len_before: it.len(), hint: it.size_hint(), item: None });
    obs
}

/// `World::sink_value` needs the World's type parameters; this is the same logic for any destination backend.
fn sink_elem<T: Elem, Tr: ?Sized + TrX, MB: MX, V: any_vec::any_value::AnyValueMut>(h: V, sink: Sink, b: Option<&mut AnyVec<Tr, MB>>, fails: &mut Vec<Fail>) -> Option<u16> {
    use any_vec::any_value::{AnyValueMut, AnyValueTypeless};
    if h.value_typeid() != TypeId::of::<T>() { fails.push(Fail { class: Class::Type, kind: "handle-typeid", detail: "yielded element reports a wrong value_typeid".into() }); }
    if h.size() != size_of::<T>() { fails.push(Fail { class: Class::Type, kind: "handle-size", detail: format!("yielded element reports size {}", h.size()) }); }
    match sink {
        Sink::Drop => { drop(h); None }
        Sink::Downcast => { let v: T = h.downcast::<T>().expect("downcast to the real type failed"); let id = v.id(); let _w = elem::WindowOff::new(); drop(v); Some(id) }
        Sink::DowncastRef => { let id = h.downcast_ref::<T>().expect("downcast_ref failed").id(); drop(h); Some(id) }
        Sink::DowncastUnchecked => { let v: T = unsafe { h.downcast_unchecked::<T>() }; let id = v.id(); let _w = elem::WindowOff::new(); drop(v); Some(id) }
        Sink::MutMoveB => {
            let mut h = h;
            let id = { let t = h.downcast_mut::<T>().expect("downcast_mut failed"); let _w = elem::WindowOff::new(); t.retag(); t.id() };
            b.unwrap().push(h);
            Some(id)
        }
        Sink::PushB => { b.unwrap().push(h); None }
        Sink::InsertB0 => { b.unwrap().insert(0, h); None }
        Sink::SwapW => {
            let mut h = h;
            let mut wv = AnyValueWrapper::new({ let _w = elem::WindowOff::new(); T::fresh() });
            h.swap(&mut wv);
            drop(h);
            let old: T = wv.downcast::<T>().unwrap();
            let id = old.id();
            let _w = elem::WindowOff::new();
            drop(old);
            Some(id)
        }
        Sink::SwapRaw => {
            let mut h = h;
            let mut tmp = ManuallyDrop::new({ let _w = elem::WindowOff::new(); T::fresh() });
            let mut raw = unsafe { AnyValueRaw::new(NonNull::from(&mut *tmp).cast::<u8>(), size_of::<T>(), TypeId::of::<T>()) };
            h.swap(&mut raw);
            drop(h);
            let id = tmp.id();
            let _w = elem::WindowOff::new();
            unsafe { ManuallyDrop::drop(&mut tmp); }
            Some(id)
        }
        Sink::LazyB(_) => unreachable!(),
        Sink::Forget => { std::mem::forget(h); None }
    }
}

/// Drive a typed range iterator (items are owned `T`s).
fn drive_typed<T: Elem, It: DoubleEndedIterator<Item = T> + ExactSizeIterator>(it: &mut It, pat: Pat) -> Vec<StepObs> {
    let mut obs = { let _w = elem::WindowOff::new(); Vec::with_capacity(pat.n as usize + 1) };
    for i in 0..pat.n as usize {
        let len_before = it.len();
        let hint = it.size_hint();
        let e = if pat.back(i) { it.next_back() } else { it.next() };
        let item = e.map(|v| { let id = v.id(); let _w = elem::WindowOff::new(); drop(v); Some(id) });
        obs.push(StepObs { len_before, hint, item });
    }
    obs.push(StepObs { len_before: it.len(), hint: it.size_hint(), item: None });
    obs
}

/// Compare the observed steps with the model's deque of removed items. Returns what the sinks did to B's model.
fn check_steps<T: Elem>(obs: &[StepObs], removed: &mut VecDeque<Mv>, pat: Pat, sink: Sink, mb: &mut Vec<Mv>, out: &mut Out) {
    for (i, o) in obs.iter().enumerate() {
        let rem = removed.len();
        if o.len_before != rem || o.hint != (rem, Some(rem)) {
            out.fail(Class::Iter, "size-hint", format!("step {i}: len()={} size_hint={:?}, {} item(s) still to come", o.len_before, o.hint, rem));
        }
        if i == pat.n as usize { break; }
        let want = if pat.back(i) { removed.pop_back() } else { removed.pop_front() };
        match (&o.item, want) {
            (None, None) => {}
            (None, Some(w)) => out.fail(Class::Iter, "early-none", format!("step {i}: iterator returned None but {w:?} is still to come")),
            (Some(_), None) => out.fail(Class::Iter, "not-fused", format!("step {i}: iterator returned an item after exhaustion")),
            (Some(seen), Some(w)) => {
                if T::SIZE != 0 {
                    if matches!(sink, Sink::Downcast | Sink::DowncastRef | Sink::DowncastUnchecked | Sink::SwapW | Sink::SwapRaw) {
                        match seen { Some(id) if mv_match(w, *id) => {}, _ => out.fail(Class::Iter, "wrong-item", format!("step {i} ({}): yielded {seen:?}, model {w:?}", if pat.back(i) { "next_back" } else { "next" })) }
                    }
                }
                match sink {
                    Sink::MutMoveB => mb.push(Mv::Id(seen.unwrap_or(u16::MAX))),
                    Sink::PushB => mb.push(w),
                    Sink::InsertB0 => mb.insert(0, w),
                    Sink::LazyB(k) => { let p = match w { Mv::Id(i) => i, Mv::CloneOf(p) => p }; for _ in 0..k { mb.push(Mv::CloneOf(p)); } }
                    _ => {}
                }
            }
        }
    }
}

impl<T: Elem + SatisfyTraits<Tr>, M: MX, Tr: TrX + ?Sized> World<T, M, Tr> {
    pub fn do_drain(&mut self, api: Api, a: usize, b: usize, form: Form, pat: Pat, sink: Sink, out: &mut Out) {
        let len = self.ma.len();
        let valid = range_valid(a, b, len);
        let World { a: va, b: vb, ma, mb, .. } = self;
        let mut sfails = Vec::new();
        let sf = &mut sfails;
        let r: Result<Vec<StepObs>, Caught> = match api {
            Api::Erased => { let bb = vb.as_mut(); guarded(move || { let mut d = mk_drain(va, form, a, b); let o = drive_erased::<T, Tr, M, M::Aux, _>(&mut d, pat, sink, bb, sf); drop(d); o }) }
            Api::Typed => guarded(move || { let mut t = va.downcast_mut::<T>().unwrap(); let mut d = t.drain(bounds(form, a, b)); let o = drive_typed::<T, _>(&mut d, pat); drop(d); o }),
        };
        out.fails.append(&mut sfails);
        match r {
            Err(Caught::Injected) => out.faulted = true,
            Err(Caught::Panic(m)) => if !valid { out.outcome.push_str("panic-range") } else { out.fail(Class::Vec, "unexpected-panic", format!("drain({a}..{b}) on len {len} panicked: {m}")) },
            Ok(obs) => {
                if !valid { out.fail(Class::Vec, "missing-panic", format!("drain with invalid range {a}..{b} on len {len} did not panic")); return; }
                let mut removed: VecDeque<Mv> = ma.drain(a..b).collect();
                let eff = if api == Api::Typed { Sink::Downcast } else { sink };
                check_steps::<T>(&obs, &mut removed, pat, eff, mb, out);
                out.outcome.push_str("ok");
            }
        }
    }

    pub fn do_range_overflow(&mut self, api: Api, o: OverflowRange, splice: bool, out: &mut Out) {
        let va = &mut self.a;
        let r = guarded(|| {
            let bd = overflow_bounds(o);
            match (api, splice) {
                (Api::Erased, false) => { let d = va.drain(bd); drop(d); }
                (Api::Erased, true) => { let (it, _) = ReplT::<T>::new(0, 0); let d = va.splice(bd, it.map(AnyValueWrapper::new)); drop(d); }
                (Api::Typed, false) => { let mut t = va.downcast_mut::<T>().unwrap(); let d = t.drain(bd); drop(d); }
                (Api::Typed, true) => { let mut t = va.downcast_mut::<T>().unwrap(); let (it, _) = ReplT::<T>::new(0, 0); let d = t.splice(bd, it); drop(d); }
            }
        });
        match r {
            Err(Caught::Injected) => out.faulted = true,
            Err(Caught::Panic(_)) => out.outcome.push_str("panic-overflow"),
            Ok(()) => out.fail(Class::Vec, "missing-panic-overflow", format!("range {o:?} whose bound computation overflows did not panic")),
        }
        // the same on a vector whose length really is usize::MAX (only reachable for zero-sized elements, through set_len): the
        // bound computation still overflows, so the call must still panic before anything changes
        if T::SIZE == 0 && !T::HAS_DROP && self.a.capacity() == usize::MAX && out.fails.is_empty() && !out.faulted {
            let len0 = self.a.len();
            unsafe { self.a.set_len(usize::MAX); }
            let va = &mut self.a;
            let r = guarded(|| {
                let bd = overflow_bounds(o);
                match (api, splice) {
                    (Api::Erased, false) => { let d = va.drain(bd); std::mem::forget(d); }
                    (Api::Erased, true) => { let (it, _) = ReplT::<T>::new(0, 0); let d = va.splice(bd, it.map(AnyValueWrapper::new)); std::mem::forget(d); }
                    (Api::Typed, false) => { let mut t = va.downcast_mut::<T>().unwrap(); let d = t.drain(bd); std::mem::forget(d); }
                    (Api::Typed, true) => { let mut t = va.downcast_mut::<T>().unwrap(); let (it, _) = ReplT::<T>::new(0, 0); let d = t.splice(bd, it); std::mem::forget(d); }
                }
            });
            let len1 = self.a.len();
            unsafe { self.a.set_len(len0); }
            match r {
                Err(Caught::Injected) => out.faulted = true,
                Err(Caught::Panic(_)) => { if len1 != usize::MAX { out.fail(Class::Vec, "panic-changed-len", format!("range {o:?} on a vector of usize::MAX zero-sized elements panicked but left len {len1}")); } out.outcome.push_str("+maxlen"); }
                Ok(()) => out.fail(Class::Vec, "missing-panic-overflow", format!("range {o:?} on a vector of usize::MAX zero-sized elements did not panic (bound computation overflows)")),
            }
        }
    }

    pub fn do_splice(&mut self, api: Api, a: usize, b: usize, form: Form, pat: Pat, sink: Sink, rn: usize, rsrc: RSrc, lie: i8, out: &mut Out) {
        let len = self.ma.len();
        let cap = self.a.capacity();
        let valid = range_valid(a, b, len);
        let World { a: va, b: vb, ma, mb, .. } = self;
        let mut sfails = Vec::new();
        let sf = &mut sfails;
        // replacement values and their model
        let mut repl_model: Vec<Mv> = Vec::new();
        let r: Result<Vec<StepObs>, Caught> = match (api, rsrc) {
            (Api::Typed, _) => {
                let (it, ids) = ReplT::<T>::new(rn, lie);
                repl_model = ids;
                guarded(move || { let mut t = va.downcast_mut::<T>().unwrap(); let mut d = t.splice(bounds(form, a, b), it); let o = drive_typed::<T, _>(&mut d, pat); drop(d); o })
            }
            (Api::Erased, RSrc::W) => {
                let (it, ids) = ReplT::<T>::new(rn, lie);
                repl_model = ids;
                let bb = vb.as_mut();
                guarded(move || { let mut d = mk_splice(va, form, a, b, it.map(AnyValueWrapper::new)); let o = drive_erased::<T, Tr, M, M::Aux, _>(&mut d, pat, sink, bb, sf); drop(d); o })
            }
            (Api::Erased, RSrc::R) => {
                // contiguous caller-owned slots
                let mut store: [std::mem::MaybeUninit<T>; 4] = [const { std::mem::MaybeUninit::uninit() }; 4];
                for i in 0..rn { let v = T::fresh(); repl_model.push(Mv::Id(v.id())); store[i].write(v); }
                let it = ReplRaw::<T> { base: store.as_mut_ptr() as *mut T, pos: 0, n: rn, lie, calls: std::cell::Cell::new(0) };
                let bb = vb.as_mut();
                let va2 = &mut *va;
                let r = guarded(move || { let mut d = mk_splice(va2, form, a, b, it); let o = drive_erased::<T, Tr, M, M::Aux, _>(&mut d, pat, sink, bb, sf); drop(d); o });
                // values the library did not move into the vector are still owned by the harness
                let taken: std::collections::HashSet<u16> = crate::exec::snap::<T, Tr, M>(va).iter().map(|(id, _)| *id).collect();
                for i in 0..rn {
                    let v = unsafe { store[i].assume_init_read() };
                    if T::SIZE != 0 && taken.contains(&v.id()) { std::mem::forget(v); } else if T::SIZE != 0 { drop(v); } else { std::mem::forget(v); }
                }
                r
            }
            (Api::Erased, RSrc::BDrain) => {
                let vb = vb.as_mut().unwrap();
                repl_model = mb.drain(0..rn).collect();
                guarded(move || { let it = vb.drain(0..rn); let mut d = mk_splice(va, form, a, b, it); let o = drive_erased::<T, Tr, M, M::Aux, _>(&mut d, pat, sink, None, sf); drop(d); o })
            }
            (Api::Erased, RSrc::LzRefs) => {
                let vb = vb.as_ref().unwrap();
                repl_model = mb[0..rn].iter().map(|m| Mv::CloneOf(match m { Mv::Id(i) => *i, Mv::CloneOf(p) => *p })).collect();
                guarded(move || {
                    let refs = [vb.at(0), vb.at(1), vb.at(2)];
                    Tr::lz_splice(&refs[..rn], va, LzSpliceRun::<T> { form, a, b, pat, sink, fails: sf, _t: std::marker::PhantomData })
                })
            }
        };
        out.fails.append(&mut sfails);
        let new_len = if valid { len - (b - a) + rn } else { len };
        let overfull = !M::RESIZABLE && new_len > cap;
        if lie != 0 { out.faulted = true; }
        match r {
            Err(Caught::Injected) => out.faulted = true,
            Err(Caught::Panic(m)) => {
                if !valid { out.outcome.push_str("panic-range"); }
                else if overfull { out.outcome.push_str("panic-full"); out.faulted = true; /* contents only required to stay valid */ }
                else if lie != 0 { out.outcome.push_str("panic-lie"); }
                else { out.fail(Class::Vec, "unexpected-panic", format!("splice({a}..{b}, {rn} items) on len {len} cap {cap} panicked: {m}")); out.faulted = true; }
            }
            Ok(obs) => {
                if !valid { out.fail(Class::Vec, "missing-panic", format!("splice with invalid range {a}..{b} on len {len} did not panic")); return; }
                if lie != 0 { out.outcome.push_str("lie-returned"); return; }
                let mut removed: VecDeque<Mv> = ma.splice(a..b, repl_model.iter().cloned()).collect();
                let eff = if api == Api::Typed { Sink::Downcast } else { sink };
                check_steps::<T>(&obs, &mut removed, pat, eff, mb, out);
                out.outcome.push_str("ok");
            }
        }
    }

    /// Iterator protocol over the whole vector (C14): exact size, double ended, fused, clones independent.
    pub fn do_iter_proto(&mut self, api: Api, kind: IterKind, pat: Pat, clone_at: u8, out: &mut Out) {
        let va = &mut self.a;
        let from = clone_at >= 100; // the copy is made with `Clone::clone_from` into an iterator created over ANOTHER vector
        let clone_at = (clone_at % 100) as usize;
        // (original observations, clone observations)
        type O = (Vec<StepObs>, Vec<StepObs>);
        fn drive<I: DoubleEndedIterator + ExactSizeIterator, F: FnMut(I::Item) -> u16>(it: &mut I, pat: Pat, from: usize, mut f: F) -> Vec<StepObs> {
            let mut obs = { let _w = elem::WindowOff::new(); Vec::with_capacity(pat.n as usize + 2) };
            for i in from..pat.n as usize {
                let len_before = it.len();
                let hint = it.size_hint();
                let e = if pat.back(i) { it.next_back() } else { it.next() };
                obs.push(StepObs { len_before, hint, item: e.map(|x| Some(f(x))) });
            }
            obs.push(StepObs { len_before: it.len(), hint: it.size_hint(), item: None });
            obs
        }
        let r: Result<O, Caught> = guarded(|| match (api, kind) {
            (Api::Erased, IterKind::Iter) | (Api::Erased, IterKind::IntoIterRef) => {
                // (the two ways to obtain the iterator are expanded separately: nothing here assumes that they give the same type)
                macro_rules! shared { ($mk:expr, $mk_other:expr) => {{
                    let mut it = $mk;
                    let mut pre = Pat { n: clone_at.min(pat.n as usize) as u8, bits: pat.bits };
                    if clone_at > pat.n as usize { pre = pat; }
                    let mut o1 = drive(&mut it, pre, 0, |e| e.downcast_ref::<T>().unwrap().id());
                    if clone_at > pat.n as usize { return (o1, Vec::new()); }
                    o1.pop();
                    let mut other = AnyVec::<Tr, M>::new_in::<T>(M::make());
                    if from && (M::RESIZABLE || other.capacity() > 0) { other.downcast_mut::<T>().unwrap().push(T::fresh()); }
                    let mut cl = if from { let mut c = $mk_other(&other); c.clone_from(&it); c } else { it.clone() };
                    o1.extend(drive(&mut it, pat, clone_at, |e| e.downcast_ref::<T>().unwrap().id()));
                    let o2 = drive(&mut cl, pat, clone_at, |e| e.downcast_ref::<T>().unwrap().id());
                    drop(cl);
                    drop(other);
                    (o1, o2)
                }} }
                if kind == IterKind::Iter { shared!(va.iter(), |o: &AnyVec<Tr, M>| unsafe { &*(o as *const AnyVec<Tr, M>) }.iter()) }
                else { shared!((&*va).into_iter(), |o: &AnyVec<Tr, M>| unsafe { &*(o as *const AnyVec<Tr, M>) }.into_iter()) }
            }
            (Api::Erased, _) => {
                if kind == IterKind::IterMut { let mut it = va.iter_mut(); (drive(&mut it, pat, 0, |mut e| e.downcast_mut::<T>().unwrap().id()), Vec::new()) }
                else { let mut it = (&mut *va).into_iter(); (drive(&mut it, pat, 0, |mut e| e.downcast_mut::<T>().unwrap().id()), Vec::new()) }
            }
            (Api::Typed, IterKind::Iter) | (Api::Typed, IterKind::IntoIterRef) => {
                let t = va.downcast_ref::<T>().unwrap();
                let mut it = if kind == IterKind::Iter { t.iter() } else { t.into_iter() };
                let pre = if clone_at > pat.n as usize { pat } else { Pat { n: clone_at as u8, bits: pat.bits } };
                let mut o1 = drive(&mut it, pre, 0, |e| e.id());
                if clone_at > pat.n as usize { return (o1, Vec::new()); }
                o1.pop();
                let mut cl = it.clone();
                o1.extend(drive(&mut it, pat, clone_at, |e| e.id()));
                let o2 = drive(&mut cl, pat, clone_at, |e| e.id());
                (o1, o2)
            }
            (Api::Typed, _) => {
                let mut t = va.downcast_mut::<T>().unwrap();
                if kind == IterKind::IterMut { let mut it = t.iter_mut(); (drive(&mut it, pat, 0, |e| e.id()), Vec::new()) }
                else { let mut it = t.into_iter(); (drive(&mut it, pat, 0, |e| e.id()), Vec::new()) }
            }
        });
        match r {
            Err(Caught::Injected) => out.faulted = true,
            Err(Caught::Panic(m)) => out.fail(Class::Iter, "unexpected-panic", format!("iterator panicked: {m}")),
            Ok((o1, o2)) => {
                let mut dq: VecDeque<Mv> = self.ma.iter().cloned().collect();
                let mut dq_at_clone = None;
                // replay original
                let mut nomb = Vec::new();
                if o2.is_empty() {
                    check_steps::<T>(&o1, &mut dq, pat, Sink::Downcast, &mut nomb, out);
                } else {
                    // model state at the clone point
                    let mut m = dq.clone();
                    for i in 0..clone_at { if pat.back(i) { m.pop_back(); } else { m.pop_front(); } }
                    dq_at_clone = Some(m);
                    check_steps::<T>(&o1, &mut dq, pat, Sink::Downcast, &mut nomb, out);
                }
                if let Some(mut m) = dq_at_clone {
                    let sub = Pat { n: pat.n - clone_at as u8, bits: pat.bits >> clone_at };
                    let before = out.fails.len();
                    check_steps::<T>(&o2, &mut m, sub, Sink::Downcast, &mut nomb, out);
                    for f in out.fails[before..].iter_mut() { f.kind = "clone-not-independent"; }
                }
                out.outcome.push_str("ok");
            }
        }
    }
}

/// adaptor op code = pre << 6 | which << 3 | n : `pre` plain next() calls first, then adaptor `which` with argument `n`
pub fn adapt_ops() -> Vec<u8> {
    let mut v = Vec::new();
    for pre in 0..3u8 { for which in 0..8u8 { for n in 0..8u8 {
        if which != 7 && n > 5 { continue; }
        v.push(pre << 6 | which << 3 | n);
    } } }
    v
}

#[derive(Debug, Clone, PartialEq)]
pub enum AObs<X> { Item(X), Nothing, Count(usize) }

/// Apply std adaptor `op` to an iterator. The same function runs on the library's iterator and on std's (`vec::Drain`, slice iter).
pub fn adapt<I: DoubleEndedIterator + ExactSizeIterator, X>(mut it: I, owning: bool, op: u8, mut f: impl FnMut(I::Item) -> X) -> Vec<AObs<X>> {
    let (pre, which, n) = ((op >> 6) as usize, (op >> 3) & 7, (op & 7) as usize);
    let mut out = { let _w = elem::WindowOff::new(); Vec::with_capacity(32) };
    let mut one = |o: Option<I::Item>, out: &mut Vec<AObs<X>>| match o { Some(x) => out.push(AObs::Item(f(x))), None => out.push(AObs::Nothing) };
    for _ in 0..pre { let x = it.next(); one(x, &mut out); }
    match which {
        0 => { let x = it.nth(n); one(x, &mut out); }
        1 => { let x = it.nth_back(n); one(x, &mut out); }
        2 => { let x = it.by_ref().skip(n).next(); one(x, &mut out); }
        3 => { let x = it.by_ref().rev().skip(n).next(); one(x, &mut out); }
        4 => { for x in it.by_ref().step_by(n + 1).take(8) { one(Some(x), &mut out); } }
        5 => { for x in it.by_ref().rev().step_by(n + 1).take(8) { one(Some(x), &mut out); } }
        6 => { for x in it.by_ref().take(n) { one(Some(x), &mut out); } }
        _ => match n {
            0 => { let x = it.by_ref().last(); one(x, &mut out); }
            1 => { let c = it.by_ref().count(); out.push(AObs::Count(c)); }
            2 => { for x in it.by_ref().rev().take(8) { one(Some(x), &mut out); } }
            3 => { let x = it.nth(1); one(x, &mut out); let y = it.nth_back(0); one(y, &mut out); }
            4 => { let x = it.nth_back(1); one(x, &mut out); let y = it.nth(0); one(y, &mut out); }
            // consuming methods called on the iterator BY VALUE (through `by_ref()` std never reaches an override of `fold`, `rfold`,
            // `count` or `last`): nothing is left to inspect afterwards
            // (every item is consumed INSIDE the closure, while the iterator is alive: a drained element kept beyond its draining
            // iterator is the C16 known finding "outlive-iterator", not something these checks may trip over)
            5 => { let mut obs = { let _w = elem::WindowOff::new(); Vec::with_capacity(256) }; it.fold((), |(), x| obs.push(f(x))); for o in obs { out.push(AObs::Item(o)); } return out; }
            6 => { let mut obs = { let _w = elem::WindowOff::new(); Vec::with_capacity(256) }; it.rfold((), |(), x| obs.push(f(x))); for o in obs { out.push(AObs::Item(o)); } return out; }
            // (by-value `last()` of an OWNING iterator hands out an item that has outlived its iterator: same known finding, not called)
            _ => { if pre == 1 && !owning { let x = it.last(); one(x, &mut out); } else { let c = it.count(); out.push(AObs::Count(c)); } return out; }
        },
    }
    // what is left: reported length, then (bounded) the remaining items from both ends, then fusedness
    out.push(AObs::Count(it.len()));
    for k in 0..8 { let x = if k % 2 == 0 { it.next() } else { it.next_back() }; let none = x.is_none(); one(x, &mut out); if none { break; } }
    let x = it.next(); one(x, &mut out);
    let y = it.next_back(); one(y, &mut out);
    out.push(AObs::Count(it.len()));
    out
}

fn cmp_adapt(real: &[AObs<u16>], model: &[AObs<Mv>], zst: bool) -> Option<String> {
    if real.len() != model.len() { return Some(format!("{} observations, model {}", real.len(), model.len())); }
    for (i, (r, m)) in real.iter().zip(model).enumerate() {
        let ok = match (r, m) {
            (AObs::Item(id), AObs::Item(mv)) => zst || mv_match(*mv, *id),
            (AObs::Nothing, AObs::Nothing) => true,
            (AObs::Count(a), AObs::Count(b)) => a == b,
            _ => false,
        };
        if !ok { return Some(format!("observation {i}: {r:?}, std gives {m:?}")); }
    }
    None
}

impl<T: Elem + SatisfyTraits<Tr>, M: MX, Tr: TrX + ?Sized> World<T, M, Tr> {
    /// drain / splice consumed through a std iterator adaptor, compared with the same adaptor on `Vec::drain` / `Vec::splice`
    pub fn do_range_adapt(&mut self, api: Api, a: usize, b: usize, op: u8, splice_rn: Option<usize>, out: &mut Out) {
        let len = self.ma.len();
        if !range_valid(a, b, len) { out.outcome.push_str("n/a"); return; }
        if let Some(rn) = splice_rn { if !M::RESIZABLE && len - (b - a) + rn > self.a.capacity() { out.outcome.push_str("n/a"); return; } }
        let va = &mut self.a;
        let id_of = |v: T| { let id = v.id(); let _w = elem::WindowOff::new(); drop(v); id };
        let mut repl_model: Vec<Mv> = Vec::new();
        let r: Result<Vec<AObs<u16>>, Caught> = match (api, splice_rn) {
            (Api::Erased, None) => guarded(|| { let d = va.drain(a..b); adapt(d, true, op, |e| id_of(e.downcast::<T>().unwrap())) }),
            (Api::Typed, None) => guarded(|| { let mut t = va.downcast_mut::<T>().unwrap(); let d = t.drain(a..b); adapt(d, true, op, id_of) }),
            (Api::Erased, Some(rn)) => { let (it, ids) = ReplT::<T>::new(rn, 0); repl_model = ids;
                guarded(|| { let d = va.splice(a..b, it.map(AnyValueWrapper::new)); adapt(d, true, op, |e| id_of(e.downcast::<T>().unwrap())) }) }
            (Api::Typed, Some(rn)) => { let (it, ids) = ReplT::<T>::new(rn, 0); repl_model = ids;
                guarded(|| { let mut t = va.downcast_mut::<T>().unwrap(); let d = t.splice(a..b, it); adapt(d, true, op, id_of) }) }
        };
        let model = { let d = self.ma.splice(a..b, repl_model.iter().cloned()); adapt(d, true, op, |m| m) };
        match r {
            Err(Caught::Injected) => out.faulted = true,
            Err(Caught::Panic(m)) => { out.fail(Class::Iter, "unexpected-panic", format!("adaptor {op} on drain/splice({a}..{b}) panicked: {m}")); out.faulted = true; }
            Ok(real) => {
                if let Some(d) = cmp_adapt(&real, &model, T::SIZE == 0) { out.fail(Class::Iter, "adaptor-mismatch", format!("adaptor {op} on {}({a}..{b}) of len {len}: {d}", if splice_rn.is_some() { "splice" } else { "drain" })); }
                out.outcome.push_str("ok");
            }
        }
    }

    /// iter / iter_mut consumed through a std adaptor, compared with the slice iterator of the model
    pub fn do_iter_adapt(&mut self, api: Api, kind: IterKind, op: u8, out: &mut Out) {
        let va = &mut self.a;
        let r: Result<Vec<AObs<u16>>, Caught> = guarded(|| match (api, kind) {
            (Api::Erased, IterKind::Iter) | (Api::Erased, IterKind::IntoIterRef) => { let it = va.iter(); adapt(it, false, op, |e| e.downcast_ref::<T>().unwrap().id()) }
            (Api::Erased, _) => { let it = va.iter_mut(); adapt(it, false, op, |mut e| e.downcast_mut::<T>().unwrap().id()) }
            (Api::Typed, IterKind::Iter) | (Api::Typed, IterKind::IntoIterRef) => { let t = va.downcast_ref::<T>().unwrap(); let it = t.iter(); adapt(it, false, op, |e| e.id()) }
            (Api::Typed, _) => { let mut t = va.downcast_mut::<T>().unwrap(); let it = t.iter_mut(); adapt(it, false, op, |e| e.id()) }
        });
        let model = { let it = self.ma.iter(); adapt(it, false, op, |m| *m) };
        match r {
            Err(Caught::Injected) => out.faulted = true,
            Err(Caught::Panic(m)) => out.fail(Class::Iter, "unexpected-panic", format!("adaptor {op} on iter panicked: {m}")),
            Ok(real) => {
                if let Some(d) = cmp_adapt(&real, &model, T::SIZE == 0) { out.fail(Class::Iter, "adaptor-mismatch", format!("adaptor {op} on {kind:?}: {d}")); }
                out.outcome.push_str("ok");
            }
        }
    }
}

/// generic continuation used by the lazy-clone replacement source
pub trait SpliceRun<Tr: ?Sized + TrX, M: MemBuilder> {
    fn run<I: ExactSizeIterator>(self, a: &mut AnyVec<Tr, M>, it: I) -> Vec<StepObs> where I::Item: AnyValue;
}
pub struct LzSpliceRun<'f, T> { form: Form, a: usize, b: usize, pat: Pat, sink: Sink, fails: &'f mut Vec<Fail>, _t: std::marker::PhantomData<T> }
impl<'f, T: Elem, Tr: ?Sized + TrX, M: MX> SpliceRun<Tr, M> for LzSpliceRun<'f, T> {
    fn run<I: ExactSizeIterator>(self, va: &mut AnyVec<Tr, M>, it: I) -> Vec<StepObs> where I::Item: AnyValue {
        let mut d = mk_splice(va, self.form, self.a, self.b, it);
        let o = drive_erased::<T, Tr, M, M::Aux, _>(&mut d, self.pat, self.sink, None, self.fails);
        drop(d);
        o
    }
}

/// used by `TrX::lz_splice` for cloneable sets
pub fn lz_splice_impl<'e, Tr, MS, M, S>(refs: &'e [ElementRef<'e, Tr, MS>], a: &mut AnyVec<Tr, M>, s: S) -> Vec<StepObs>
where Tr: ?Sized + TrX + any_vec::traits::Cloneable, MS: MemBuilder, M: MemBuilder, S: SpliceRun<Tr, M>
{
    use any_vec::any_value::AnyValueCloneable;
    s.run(a, refs.iter().map(|e| (**e).lazy_clone()))
}
