//! Element alphabet and identity registry (DESIGN.md §3.2).
//!
//! Every non-ZST element carries an identity (u8 for size 1, u16 otherwise) in its first bytes and a
//! canary (all remaining bytes are a function of the identity and the byte position). `Drop` (for the
//! `..D` types) and `Clone` report to a thread-local registry. Nothing here allocates, so it is safe to
//! run inside the "library window" of the logging allocator; faults are injected here as well.

use std::cell::{Cell, UnsafeCell};

pub const MAX_IDS: usize = 1024;
pub const MAX_ERRS: usize = 16;

#[derive(Clone, Copy, PartialEq, Eq, Debug)]
pub enum RegErr {
    DoubleDrop(u16),
    GarbageDrop(u16),     // drop of an id that was never created (or bad canary)
    CanaryDrop(u16),      // dropped value's canary is broken
    CloneOfDead(u16),
    CloneOfGarbage(u16),
    ZstOverDrop,
}

#[derive(Clone, Copy, PartialEq, Eq, Debug)]
#[repr(u8)]
pub enum IdState { Never = 0, Live = 1, Dead = 2 }

pub struct Registry {
    pub state: [IdState; MAX_IDS],
    pub parent: [u16; MAX_IDS],   // u16::MAX = none
    pub next_id: u16,
    pub creates: u32,
    pub clones: u32,
    pub drops: u32,
    pub zst_live: i64,            // ZST accounting by count (creates + clones - drops)
    pub zst_creates: u32,
    pub zst_clones: u32,
    pub zst_drops: u32,
    pub errs: [Option<RegErr>; MAX_ERRS],
    pub nerrs: usize,
    /// user-code invocations (Drop / Clone / replacement-iterator next) seen inside the library window
    pub user_calls: u32,
    /// 1-based index of the user-code invocation that must panic (0 = none)
    pub fault_at: u32,
    pub fault_fired: bool,
    /// bulk mode (amortisation push run): values are not tracked individually, ids cycle
    pub untracked: bool,
    pub bulk_counter: u32,
    /// lowest / highest address of a value `Clone` was called on since `clone_src_n` was last zeroed
    pub clone_src_min: usize,
    pub clone_src_max: usize,
    pub clone_src_n: u32,
}

impl Registry {
    const fn new() -> Self {
        Registry {
            state: [IdState::Never; MAX_IDS],
            parent: [u16::MAX; MAX_IDS],
            next_id: 0,
            creates: 0, clones: 0, drops: 0,
            zst_live: 0, zst_creates: 0, zst_clones: 0, zst_drops: 0,
            errs: [None; MAX_ERRS],
            nerrs: 0,
            user_calls: 0,
            fault_at: 0,
            fault_fired: false,
            untracked: false,
            bulk_counter: 0,
            clone_src_min: 0, clone_src_max: 0, clone_src_n: 0,
        }
    }
    fn err(&mut self, e: RegErr) {
        if self.nerrs < MAX_ERRS { self.errs[self.nerrs] = Some(e); self.nerrs += 1; }
    }
}

struct RegCell(UnsafeCell<Registry>);
thread_local! {
    static REG: RegCell = const { RegCell(UnsafeCell::new(Registry::new())) };
    /// true while library code (the edge under test) is running
    pub static IN_LIB: Cell<bool> = const { Cell::new(false) };
}

/// Access the thread-local registry. Never re-entrant (callbacks are leaf functions).
#[inline]
pub fn with_reg<R>(f: impl FnOnce(&mut Registry) -> R) -> R {
    REG.with(|r| unsafe { f(&mut *r.0.get()) })
}

pub fn reset() {
    with_reg(|r| *r = Registry::new());
}

#[inline]
pub fn in_lib() -> bool { IN_LIB.with(|c| c.get()) }

/// RAII: switch the library window off for the duration of a harness callback.
pub struct WindowOff(bool);
impl WindowOff {
    #[inline]
    pub fn new() -> Self { let old = IN_LIB.with(|c| c.replace(false)); WindowOff(old) }
}
impl Drop for WindowOff {
    #[inline]
    fn drop(&mut self) { IN_LIB.with(|c| c.set(self.0)); }
}

/// Run `f` as library code: allocator events and user-code invocations are attributed to the library.
#[inline]
pub fn lib<R>(f: impl FnOnce() -> R) -> R {
    struct G(bool);
    impl Drop for G { fn drop(&mut self) { IN_LIB.with(|c| c.set(self.0)); } }
    let _g = G(IN_LIB.with(|c| c.replace(true)));
    f()
}

pub struct InjectedFault;

/// Called by every user-code callback (element Drop/Clone, replacement iterator next).
/// Counts the call if it happens inside the library window and panics if it is the chosen one.
#[inline]
pub fn user_call_point() {
    if !in_lib() { return; }
    let fire = with_reg(|r| {
        r.user_calls += 1;
        if r.fault_at != 0 && r.user_calls == r.fault_at && !r.fault_fired {
            r.fault_fired = true;
            true
        } else { false }
    });
    if fire && !std::thread::panicking() {
        let _w = WindowOff::new();
        std::panic::panic_any(InjectedFault);
    }
}

pub fn fresh_id() -> u16 {
    with_reg(|r| { let id = r.next_id; r.next_id += 1; assert!((id as usize) < MAX_IDS, "id space exhausted"); id })
}

#[inline]
fn canary(id: u16, i: usize) -> u8 {
    (id as u8).wrapping_mul(31) ^ (i as u8).wrapping_mul(7) ^ ((id >> 8) as u8).wrapping_mul(13) ^ 0xA5
}

pub const POISON: u8 = 0xFD;   // fresh / released storage
pub const GUARD: u8 = 0xFB;    // guard zones
static GUARD_PAGE: [u8; 4096] = [GUARD; 4096];
static POISON_PAGE: [u8; 4096] = [POISON; 4096];
/// `len` bytes at `p` all equal `byte` (GUARD or POISON); memcmp against a constant page, fast at opt-level 0
pub unsafe fn all_eq(p: *const u8, len: usize, byte: u8) -> bool {
    let page: &[u8; 4096] = if byte == GUARD { &GUARD_PAGE } else { &POISON_PAGE };
    let mut off = 0;
    while off < len {
        let n = std::cmp::min(4096, len - off);
        if std::slice::from_raw_parts(p.add(off), n) != &page[..n] { return false; }
        off += n;
    }
    true
}

/// Element of the alphabet.
pub trait Elem: 'static + Sized + Clone + Send + Sync {
    const NAME: &'static str;
    const SIZE: usize;
    const ALIGN: usize;
    const HAS_DROP: bool;
    /// Clone / Drop report to the registry (false for the plain std types used by C04)
    const TRACKED: bool = true;
    /// create a fresh, registered value and return it
    fn fresh() -> Self;
    /// identity (0 for ZST)
    fn id(&self) -> u16;
    /// canary bytes are as written
    fn intact(&self) -> bool;
    /// in-place mutation: give the value a new identity (registry renames, no drop/create)
    fn retag(&mut self);
    fn max_ids() -> usize { if Self::SIZE == 1 { 250 } else { MAX_IDS - 8 } }
}

#[inline]
fn write_id(bytes: &mut [u8], id: u16) {
    let n = bytes.len();
    if n == 0 { return; }
    if n == 1 { assert!(id < 250, "u8 id space exhausted"); bytes[0] = id as u8; return; }
    bytes[0] = id as u8; bytes[1] = (id >> 8) as u8;
    for i in 2..n { bytes[i] = canary(id, i); }
}
#[inline]
fn read_id(bytes: &[u8]) -> u16 {
    match bytes.len() { 0 => 0, 1 => bytes[0] as u16, _ => bytes[0] as u16 | ((bytes[1] as u16) << 8) }
}
#[inline]
fn check_canary(bytes: &[u8]) -> bool {
    let id = read_id(bytes);
    for i in 2..bytes.len() { if bytes[i] != canary(id, i) { return false; } }
    true
}

pub fn reg_create(size: usize) -> u16 {
    if size == 0 {
        with_reg(|r| { r.zst_creates += 1; r.zst_live += 1; });
        return 0;
    }
    if let Some(id) = with_reg(|r| if r.untracked { let id = (r.bulk_counter % 199) as u16; r.bulk_counter += 1; Some(id) } else { None }) { return id; }
    let id = fresh_id();
    with_reg(|r| { r.state[id as usize] = IdState::Live; r.creates += 1; });
    id
}

fn reg_clone(size: usize, src: &[u8]) -> u16 {
    // where the value being cloned lives: `Clone` must run on the element itself, not on a bitwise stand-in
    let at = src.as_ptr() as usize;
    with_reg(|r| { if r.clone_src_n == 0 || at < r.clone_src_min { r.clone_src_min = at; } if r.clone_src_n == 0 || at > r.clone_src_max { r.clone_src_max = at; } r.clone_src_n += 1; });
    if size == 0 {
        with_reg(|r| { r.zst_clones += 1; r.zst_live += 1; });
        return 0;
    }
    let sid = read_id(src);
    let ok = check_canary(src);
    // bulk mode (huge vectors): a clone keeps the identity of its source, only the call is counted
    if with_reg(|r| if r.untracked { r.clones += 1; true } else { false }) { return sid; }
    let id = fresh_id();
    with_reg(|r| {
        if !ok || (sid as usize) >= MAX_IDS || r.state[sid as usize] == IdState::Never {
            r.err(RegErr::CloneOfGarbage(sid));
        } else if r.state[sid as usize] == IdState::Dead {
            r.err(RegErr::CloneOfDead(sid));
        }
        r.state[id as usize] = IdState::Live;
        r.parent[id as usize] = sid;
        r.clones += 1;
    });
    id
}

fn reg_drop(size: usize, bytes: &[u8]) {
    if size == 0 {
        with_reg(|r| { r.zst_drops += 1; r.zst_live -= 1; if r.zst_live < 0 { r.err(RegErr::ZstOverDrop); } });
        return;
    }
    let id = read_id(bytes);
    let ok = check_canary(bytes);
    with_reg(|r| {
        if r.untracked { return; }
        r.drops += 1;
        if (id as usize) >= MAX_IDS || r.state[id as usize] == IdState::Never {
            r.err(RegErr::GarbageDrop(id));
            return;
        }
        if !ok { r.err(RegErr::CanaryDrop(id)); }
        match r.state[id as usize] {
            IdState::Live => r.state[id as usize] = IdState::Dead,
            IdState::Dead => r.err(RegErr::DoubleDrop(id)),
            IdState::Never => unreachable!(),
        }
    });
}

fn reg_retag(bytes: &mut [u8]) {
    if bytes.is_empty() { return; }
    let old = read_id(bytes);
    let id = fresh_id();
    with_reg(|r| {
        // identity moves: old id is no longer anywhere, new id is live (only for D types does Live matter)
        let st = if (old as usize) < MAX_IDS { r.state[old as usize] } else { IdState::Never };
        r.state[id as usize] = if st == IdState::Never { IdState::Live } else { st };
        if (old as usize) < MAX_IDS { r.state[old as usize] = IdState::Never; }
        r.parent[id as usize] = if (old as usize) < MAX_IDS { r.parent[old as usize] } else { u16::MAX };
    });
    write_id(bytes, id);
}

macro_rules! elem {
    ($name:ident, $size:expr, $align:expr, drop) => {
        elem!(@def $name, $size, $align, true);
        impl Drop for $name {
            fn drop(&mut self) {
                reg_drop($size, &self.bytes);
                user_call_point();
            }
        }
    };
    ($name:ident, $size:expr, $align:expr, nodrop) => {
        elem!(@def $name, $size, $align, false);
    };
    (@def $name:ident, $size:expr, $align:expr, $has_drop:expr) => {
        #[repr(C, align($align))]
        pub struct $name { pub bytes: [u8; $size] }
        impl Clone for $name {
            fn clone(&self) -> Self {
                user_call_point();
                let id = reg_clone($size, &self.bytes);
                let mut bytes = [0u8; $size];
                write_id(&mut bytes, id);
                $name { bytes }
            }
        }
        impl Elem for $name {
            const NAME: &'static str = stringify!($name);
            const SIZE: usize = $size;
            const ALIGN: usize = $align;
            const HAS_DROP: bool = $has_drop;
            fn fresh() -> Self {
                let id = reg_create($size);
                let mut bytes = [0u8; $size];
                write_id(&mut bytes, id);
                $name { bytes }
            }
            #[inline] fn id(&self) -> u16 { read_id(&self.bytes) }
            #[inline] fn intact(&self) -> bool { check_canary(&self.bytes) }
            fn retag(&mut self) { reg_retag(&mut self.bytes) }
        }
        const _: () = assert!(std::mem::size_of::<$name>() == $size);
        const _: () = assert!(std::mem::align_of::<$name>() == $align);
    };
}

elem!(Z, 0, 1, nodrop);
elem!(ZD, 0, 1, drop);
elem!(ZA64, 0, 64, nodrop);
elem!(B1, 1, 1, nodrop);
elem!(B1D, 1, 1, drop);
elem!(H2D, 2, 2, drop);
elem!(T3D, 3, 1, drop);
elem!(W8, 8, 8, nodrop);
elem!(W8D, 8, 8, drop);
elem!(W8A4, 8, 4, nodrop);
elem!(W8A4D, 8, 4, drop);
elem!(P4A1D, 4, 1, drop);
elem!(H2A1, 2, 1, nodrop);
elem!(D12D, 12, 4, drop);
elem!(Q16D, 16, 16, drop);
elem!(X24D, 24, 8, drop);
elem!(A32D, 32, 32, drop);
elem!(F40D, 40, 8, drop);
elem!(S72, 72, 8, nodrop);
elem!(A64D, 64, 64, drop);
elem!(L160, 160, 8, nodrop);
elem!(L160D, 160, 32, drop);
// same size / same alignment as W8D but a distinct TypeId (C04)
elem!(W8DX, 8, 8, drop);

// plain same-size / same-alignment std types as vector element types (C04: u64 vs i64 vs f64 vs [u8; 8]); the value is the identity
macro_rules! plain_elem {
    ($t:ty, $name:expr, $from:expr, $to:expr) => {
        impl Elem for $t {
            const NAME: &'static str = $name;
            const SIZE: usize = 8;
            const ALIGN: usize = std::mem::align_of::<$t>();
            const HAS_DROP: bool = false;
            const TRACKED: bool = false;
            fn fresh() -> Self { let id = reg_create(8); ($from)(id) }
            #[inline] fn id(&self) -> u16 { ($to)(self) }
            #[inline] fn intact(&self) -> bool { true }
            fn retag(&mut self) { let id = fresh_id(); with_reg(|r| r.state[id as usize] = IdState::Live); *self = ($from)(id); }
        }
    };
}
plain_elem!(u64, "u64", |id: u16| id as u64, |v: &u64| *v as u16);
plain_elem!(i64, "i64", |id: u16| -(id as i64) - 1, |v: &i64| (-(*v) - 1) as u16);
plain_elem!(f64, "f64", |id: u16| id as f64 + 0.5, |v: &f64| (*v - 0.5) as u16);
plain_elem!([u8; 8], "[u8;8]", |id: u16| { let mut b = [0xEEu8; 8]; b[0] = id as u8; b[1] = (id >> 8) as u8; b }, |v: &[u8; 8]| v[0] as u16 | ((v[1] as u16) << 8));

/// id of an element seen as raw bytes (for byte views)
pub fn id_of_bytes(b: &[u8]) -> u16 { read_id(b) }
pub fn bytes_intact(b: &[u8]) -> bool { check_canary(b) }

pub fn state_of(id: u16) -> IdState {
    with_reg(|r| if (id as usize) < MAX_IDS { r.state[id as usize] } else { IdState::Never })
}
pub fn parent_of(id: u16) -> Option<u16> {
    with_reg(|r| if (id as usize) < MAX_IDS && r.parent[id as usize] != u16::MAX { Some(r.parent[id as usize]) } else { None })
}
