pub mod caps;
pub mod crash;
pub mod edges;
pub mod elem;
pub mod exec;
pub mod exec_range;
pub mod exec_clone;
pub mod exec_misc;
pub mod exec_cap;
pub mod exec_huge;
pub mod exec_views;
pub mod exec_handles;
pub mod galloc;
pub mod mcmodel;
pub mod track;
pub mod types;

use std::collections::HashSet;
use std::sync::{Arc, Mutex};
use std::time::Instant;

use serde_json::json;
use stateright::{Checker, Model};

use crate::exec::Runner;
use crate::mcmodel::{McState, Stats, VecModel};
use crate::types::*;

#[global_allocator]
static GLOBAL: galloc::LogAlloc = galloc::LogAlloc;

fn arg(args: &[String], name: &str) -> Option<String> {
    args.iter().position(|a| a == name).and_then(|i| args.get(i + 1).cloned())
}

/// One configuration of a shard binary: the runner, whether it belongs to the quick tier, and its group
/// ("general": the config cover of DESIGN.md 3.3; "grid": the C11 capacity grid; ...).
pub struct Entry { pub r: Box<dyn Runner>, pub quick: bool, pub group: &'static str }

thread_local! { static ALL: std::cell::RefCell<Option<fn() -> Vec<Entry>>> = const { std::cell::RefCell::new(None) }; }

/// which config groups a property explores
pub fn groups_for(prop: Prop) -> &'static [&'static str] {
    match prop {
        Prop::C11 => &["fixed", "grid"],
        Prop::C19 => &["noalloc"],
        Prop::C12 => &["general", "fixed", "align", "grid", "empty"],
        Prop::C10 => &["general"],
        // instrumented user backends and Heap under the instrumented allocator (the quantifier of C05)
        Prop::C05 => &["general"],
        Prop::C17 => &["general", "empty"],
        Prop::C18 => &["general"],
        Prop::C04 => &["general", "fixed", "plain"],
        _ => &["general", "fixed"],
    }
}

fn configs_for(prop: Prop, tier: Tier) -> Vec<Arc<dyn Runner>> {
    let f = ALL.with(|a| a.borrow().expect("main_with not called"));
    f().into_iter().filter(|e| (tier == Tier::Thorough || e.quick) && groups_for(prop).contains(&e.group))
        // dbglike flavour (core ub_checks): an over-aligned element type on inline storage aborts on the first typed view of even an
        // empty vector - that is the C12 known finding itself; it is reported by the relike flavour, these configs are skipped here
        .filter(|e| !(cfg!(debug_assertions) && matches!(e.r.backend(), crate::caps::BK::Stack | crate::caps::BK::StackN) && e.r.elem_align() > 8))
        .filter(|e| prop != Prop::C18 || e.r.backend() == crate::caps::BK::Heap)
        .filter(|e| prop != Prop::C17 || e.r.rawparts())
        .map(|e| Arc::from(e.r)).collect()
}

fn load_known(path: Option<String>) -> HashSet<String> {
    let mut s = HashSet::new();
    if let Some(p) = path {
        if let Ok(txt) = std::fs::read_to_string(&p) {
            for line in txt.lines() {
                let line = line.trim();
                if !line.starts_with("finding:") { continue; }
                for tok in line.split_whitespace() { if let Some(sig) = tok.strip_prefix("sig=") { s.insert(sig.to_string()); } }
            }
        }
    }
    s
}

fn init_states(r: &dyn Runner, prop: Prop, tier: Tier, cmax: usize) -> Vec<McState> {
    let mut v = Vec::new();
    // inline storage with over-aligned elements (C12 known finding): never construct elements there, only the empty pristine vector
    let inline_overaligned = matches!(r.backend(), caps::BK::Stack | caps::BK::StackN) && r.elem_align() > 8;
    let modes = if inline_overaligned { vec![Spare::Pristine] } else { edges::spare_modes(prop, tier) };
    for spare in modes {
        match r.fixed_cap() {
            Some(c) => v.push(McState { len: 0, cap: c.min(u16::MAX as usize) as u16, spare, bad: None }),
            None => for c in 0..=cmax { v.push(McState { len: 0, cap: c as u16, spare, bad: None }); },
        }
    }
    // wide states: lengths around ceil(128 / size), where the erased shift switches from the byte loop to ptr::copy
    let shifting = matches!(prop, Prop::C01 | Prop::C02 | Prop::C03 | Prop::C05);
    let bulk = matches!(prop, Prop::C08 | Prop::C10 | Prop::C17 | Prop::C18);
    if (shifting || bulk) && r.fixed_cap().is_none() && r.elem_size() > 0 && r.elem_size() < 64 {
        let t = (128 + r.elem_size() - 1) / r.elem_size();
        let mut lens = if !shifting { vec![] } else if tier == Tier::Quick { vec![t, t + 1] } else { vec![t - 1, t, t + 1, t + t / 2] };
        // big states: lengths around powers of two up to 200 elements (block sizes up to 8 KB for the 40-byte layout), where a
        // "large vector" fast path, a chunked copy / clone or a page-granular capacity policy would switch on; reduced alphabets
        // (`edges::wide_edges`, `edges::big_edges`)
        let big: &[usize] = if tier == Tier::Quick { &[32, 33, 65, 129, 200] } else { &[31, 32, 33, 63, 64, 65, 127, 128, 129, 200] };
        for &l in big { if !lens.contains(&l) { lens.push(l); } }
        // one-byte element types carry 8-bit identities: where the alphabet clones the whole vector keep 2 x len inside the id space
        let lmax_ids = if r.elem_size() == 1 && !matches!(prop, Prop::C01 | Prop::C02) { 100 } else { 229 };
        for l in lens { if l > 3 && l <= lmax_ids {
            for extra in [0usize, 2] { v.push(McState { len: l as u16, cap: (l + extra) as u16, spare: Spare::Pristine, bad: None }); }
            // roomy: much spare capacity behind a big length (shrinking across a size threshold)
            if (bulk || prop == Prop::C05) && (l == 33 || l == 129) { v.push(McState { len: l as u16, cap: 200, spare: Spare::Pristine, bad: None }); }
        } }
    }
    v
}

fn run_config(r: Arc<dyn Runner>, prop: Prop, tier: Tier, known: Arc<HashSet<String>>) -> serde_json::Value {
    let t0 = Instant::now();
    let b = edges::bounds(prop, tier);
    let stats = Arc::new(Mutex::new(Stats::default()));
    // two phases, so that the first counterexample is also the smallest: the exhaustive (len <= L) space first, the wide / big
    // initial states (leaves with reduced alphabets) only if that found nothing
    let all_inits = init_states(&*r, prop, tier, b.cmax);
    let (small, big): (Vec<McState>, Vec<McState>) = all_inits.into_iter().partition(|s| !s.wide(b.lmax));
    let keep_going = std::env::var("MC_KEEP_GOING").is_ok();
    let model = VecModel { runner: r.clone(), prop, tier, lmax: b.lmax, cmax: b.cmax, known: known.clone(), stats: stats.clone(), inits: small, faults: prop == Prop::C06, keep_going };
    let mut checker = model.checker().threads(1).spawn_bfs().join();
    let mut states = checker.unique_state_count();
    let mut max_depth = checker.max_depth();
    if checker.discoveries().is_empty() && !big.is_empty() {
        let model2 = VecModel { runner: r.clone(), prop, tier, lmax: b.lmax, cmax: b.cmax, known, stats: stats.clone(), inits: big, faults: prop == Prop::C06, keep_going };
        let checker2 = model2.checker().threads(1).spawn_bfs().join();
        states += checker2.unique_state_count();
        max_depth = max_depth.max(checker2.max_depth());
        if !checker2.discoveries().is_empty() { checker = checker2; }
    }
    let discoveries = checker.discoveries();
    let mut paths = Vec::new();
    for (_name, path) in discoveries {
        let v: Vec<String> = path.into_vec().into_iter().map(|(s, a)| format!("(len={},cap={},{:?}){}", s.len, s.cap, s.spare, match a { Some(a) => format!(" --{a:?}-->"), None => String::new() })).collect();
        paths.push(v);
    }
    let st = stats.lock().unwrap();
    json!({
        "config": r.name(),
        "states": states,
        "transitions": st.edges,
        "fault_runs": st.fault_runs,
        "max_depth": max_depth,
        "families": st.families,
        "outcomes": st.outcomes.iter().cloned().collect::<Vec<_>>(),
        "samples": st.samples,
        "known_hits": st.known_hits.iter().map(|(k, (n, d))| json!({"sig": k, "count": n, "example": d})).collect::<Vec<_>>(),
        "violations": st.violations.iter().map(|v| json!({"sig": v.sig, "detail": v.detail, "state": v.state, "edge": v.edge, "fault_at": v.fault_at, "config": r.name()})).collect::<Vec<_>>(),
        "paths": paths,
        "machinery": st.machinery,
        "digest": format!("{:016x}", st.digest),
        "alloc_feature": cfg!(feature = "alloc"),
        "bounds": {"lmax": b.lmax, "cmax": b.cmax},
        "exhaustive": true,
        "wall_s": t0.elapsed().as_secs_f64(),
    })
}

fn quiet_panics() {
    std::panic::set_hook(Box::new(|info| {
        // non-unwinding panics (core ub_checks in the dbglike flavour) still run the hook: make them visible
        let msg = info.to_string();
        if !elem::in_lib() && !msg.contains("InjectedFault") && std::env::var("MC_SHOW_PANICS").is_ok() { eprintln!("HARNESS-PANIC {msg}"); }
        if msg.contains("unsafe precondition") {
            let _w = elem::WindowOff::new();
            eprintln!("UBCHECK {msg}");
        }
    }));
}

pub fn main_with(all: fn() -> Vec<Entry>) {
    ALL.with(|a| *a.borrow_mut() = Some(all));
    let args: Vec<String> = std::env::args().collect();
    let cmd = args.get(1).map(|s| s.as_str()).unwrap_or("");
    let prop = arg(&args, "--prop").and_then(|p| Prop::parse(&p));
    let tier = match arg(&args, "--tier").as_deref() { Some("thorough") => Tier::Thorough, _ => Tier::Quick };
    match cmd {
        "list" => {
            let prop = prop.expect("--prop");
            for r in configs_for(prop, tier) { println!("{}", r.name()); }
        }
        "run" => {
            quiet_panics();
            crash::install();
            let prop = prop.expect("--prop");
            let names: Vec<String> = arg(&args, "--configs").expect("--configs").split(';').map(|s| s.to_string()).collect();
            let known = Arc::new(load_known(arg(&args, "--known")));
            let mut results = Vec::new();
            for r in configs_for(prop, tier) {
                if !names.contains(&r.name()) { continue; }
                results.push(run_config(r, prop, tier, known.clone()));
            }
            let out = serde_json::to_string(&json!({"results": results})).unwrap();
            match arg(&args, "--out") { Some(p) => std::fs::write(p, out).unwrap(), None => println!("{out}") }
        }
        "sweep-list" => {
            // one line per case: config|len|call|arg
            let prop = prop.expect("--prop");
            for r in configs_for(prop, tier) {
                if !r.resizable() { continue; }
                for len in 0..=2usize { for call in 0..4u8 { for a in r.sweep_args(len) { println!("{}|{}|{}|{}", r.name(), len, call, a); } } }
            }
        }
        "sweep" => {
            quiet_panics();
            crash::install();
            crash::set_current("sweep");
            let prop = prop.expect("--prop");
            let cfg = arg(&args, "--config").expect("--config");
            let len: usize = arg(&args, "--len").unwrap().parse().unwrap();
            let call: u8 = arg(&args, "--call").unwrap().parse().unwrap();
            let a: usize = arg(&args, "--arg").unwrap().parse().unwrap();
            for r in configs_for(prop, Tier::Thorough) {
                if r.name() != cfg { continue; }
                println!("{}", r.sweep(len, call, a));
                return;
            }
            println!("MACHINERY config not found");
        }
        "replay" => {
            quiet_panics();
            crash::install();
            let prop = prop.expect("--prop");
            let cfg = arg(&args, "--config").expect("--config");
            let state = arg(&args, "--state").expect("--state");
            let edge = arg(&args, "--edge").expect("--edge");
            let fault: u32 = arg(&args, "--fault").and_then(|f| f.parse().ok()).unwrap_or(0);
            let mut st = St { len: 0, cap: 0, spare: Spare::Pristine };
            for tok in state.split_whitespace() {
                if let Some(v) = tok.strip_prefix("len=") { st.len = v.parse().unwrap(); }
                if let Some(v) = tok.strip_prefix("cap=") { st.cap = v.parse().unwrap(); }
                if let Some(v) = tok.strip_prefix("spare=") { st.spare = match v { "Stale" => Spare::Stale, "Scrub" => Spare::Scrub, _ => Spare::Pristine }; }
            }
            let mut rc = 3;
            for t in [tier, Tier::Thorough] {
                for r in configs_for(prop, t) {
                    if r.name() != cfg { continue; }
                    for e in edges::edges_for(prop, t, &*r, &st) {
                        if format!("{e:?}") != edge { continue; }
                        // run twice: identical observations or the harness is nondeterministic
                        crash::set_current(&format!("config={cfg} | state={state} | edge={edge} | fault_at={fault} | stem={}/{}/{}/{}", e.family(), e.api(), e.src_kind(), e.sink_kind()));
                        let o1 = r.run(&st, &e, fault);
                        let o2 = r.run(&st, &e, fault);
                        let f1: Vec<String> = o1.fails.iter().map(|f| format!("{}:{}: {}", f.class.name(), f.kind, f.detail)).collect();
                        let f2: Vec<String> = o2.fails.iter().map(|f| format!("{}:{}: {}", f.class.name(), f.kind, f.detail)).collect();
                        if f1 != f2 { println!("MACHINERY: replay is not deterministic: {f1:?} vs {f2:?}"); std::process::exit(2); }
                        println!("replay {cfg} ({state}) {edge} fault_at={fault}: outcome={} next={:?}", o1.outcome, o1.next);
                        let mut bad = false;
                        for f in &o1.fails {
                            let rep = edges::reports(prop, f.class, f.kind, &e);
                            println!("  {} {}:{}: {}", if rep { "FAIL" } else { "(other property)" }, f.class.name(), f.kind, f.detail);
                            bad |= rep;
                        }
                        rc = if bad { 1 } else { 0 };
                        break;
                    }
                    if rc != 3 { break; }
                }
                if rc != 3 { break; }
            }
            if rc == 3 { println!("MACHINERY: replay target not found"); rc = 2; }
            std::process::exit(rc);
        }
        _ => { eprintln!("usage: anyvec-mc list|run --prop Cxx --tier quick|thorough [--configs a;b] [--known file] [--out file]"); std::process::exit(2); }
    }
}
