//! Logging global allocator (DESIGN.md §3.8). Pass-through to `System` unless the thread-local library
//! window is open. Inside the window: guard zones, poison, always-moving realloc, quarantine, layout table,
//! layout-validity checks, refusal of absurdly large requests. Uses only const-initialised, drop-free
//! thread-locals and fixed-size tables (never allocates itself).

use std::alloc::{GlobalAlloc, Layout, System};
use std::cell::UnsafeCell;

use crate::elem::{IN_LIB, WindowOff, GUARD, POISON};

pub const TABLE: usize = 64;
pub const QUAR: usize = 512;
pub const EVENTS: usize = 512;
pub const GUARD_BYTES: usize = 4096;
/// requests above this many bytes are never forwarded to the system allocator
pub const REFUSE_ABOVE: usize = 1 << 34;

#[derive(Clone, Copy, Debug, PartialEq, Eq)]
pub enum AKind { Alloc, Realloc, Dealloc, Refused }

#[derive(Clone, Copy, Debug)]
pub struct AEv { pub kind: AKind, pub ptr: usize, pub size: usize, pub align: usize, pub new_size: usize }

#[derive(Clone, Copy, Debug, PartialEq, Eq)]
pub enum AErr {
    InvalidLayout { size: usize, align: usize },
    LayoutMismatch { recorded_size: usize, recorded_align: usize, got_size: usize, got_align: usize },
    GuardDamaged { size: usize },
    StaleWrite { size: usize },
    TableFull,
}

#[derive(Clone, Copy)]
struct Entry { user: usize, base: usize, total: usize, alloc_align: usize, size: usize, align: usize, front: usize }
const NOENT: Entry = Entry { user: 0, base: 0, total: 0, alloc_align: 1, size: 0, align: 1, front: 0 };

pub struct AState {
    table: [Entry; TABLE],
    nlive: usize,
    quar: [Entry; QUAR],
    nquar: usize,
    pub events: [AEv; EVENTS],
    pub nevents: usize,
    pub errs: [Option<AErr>; 16],
    pub nerrs: usize,
    pub allocs: u32,
    pub reallocs: u32,
    pub deallocs: u32,
    /// print a marker line for refused requests (subprocess sweeps)
    pub announce_refusals: bool,
}

impl AState {
    const fn new() -> Self {
        AState {
            table: [NOENT; TABLE], nlive: 0,
            quar: [NOENT; QUAR], nquar: 0,
            events: [AEv { kind: AKind::Alloc, ptr: 0, size: 0, align: 0, new_size: 0 }; EVENTS], nevents: 0,
            errs: [None; 16], nerrs: 0,
            allocs: 0, reallocs: 0, deallocs: 0,
            announce_refusals: false,
        }
    }
    fn err(&mut self, e: AErr) { if self.nerrs < 16 { self.errs[self.nerrs] = Some(e); self.nerrs += 1; } }
    fn ev(&mut self, e: AEv) { if self.nevents < EVENTS { self.events[self.nevents] = e; } self.nevents += 1; }
    fn find(&self, user: usize) -> Option<usize> {
        if self.nlive == 0 { return None; }
        (0..self.nlive).find(|&i| self.table[i].user == user)
    }
    pub fn live_blocks(&self) -> usize { self.nlive }
    pub fn live_block(&self, i: usize) -> (usize, usize, usize) { let e = &self.table[i]; (e.user, e.size, e.align) }
    pub fn clear_log(&mut self) { self.nevents = 0; self.nerrs = 0; self.allocs = 0; self.reallocs = 0; self.deallocs = 0; }
}

struct ACell(UnsafeCell<AState>);
thread_local! { static AS: ACell = const { ACell(UnsafeCell::new(AState::new())) }; }

pub fn with_as<R>(f: impl FnOnce(&mut AState) -> R) -> R {
    AS.with(|a| unsafe { f(&mut *a.0.get()) })
}

#[inline]
fn window() -> bool { IN_LIB.with(|c| c.get()) }

fn layout_valid(size: usize, align: usize) -> bool {
    align != 0 && align.is_power_of_two() && size <= (isize::MAX as usize) - (align - 1)
}

unsafe fn guards_ok(e: &Entry) -> bool {
    let base = e.base as *const u8;
    crate::elem::all_eq(base, e.front, GUARD) && crate::elem::all_eq(base.add(e.front + e.size), e.total - e.front - e.size, GUARD)
}

unsafe fn scan_free(st: &mut AState, e: Entry) {
    if !guards_ok(&e) { st.err(AErr::GuardDamaged { size: e.size }); }
    let dirty = !crate::elem::all_eq(e.user as *const u8, e.size, POISON);
    if dirty { st.err(AErr::StaleWrite { size: e.size }); }
    System.dealloc(e.base as *mut u8, Layout::from_size_align_unchecked(e.total, e.alloc_align));
}

unsafe fn lib_alloc(st: &mut AState, size: usize, align: usize) -> *mut u8 {
    if !layout_valid(size, align) {
        st.err(AErr::InvalidLayout { size, align });
        st.ev(AEv { kind: AKind::Refused, ptr: 0, size, align, new_size: 0 });
        if st.announce_refusals { let _w = WindowOff::new(); eprintln!("ALLOC-REFUSED invalid-layout size={size} align={align}"); }
        return std::ptr::null_mut();
    }
    if size > REFUSE_ABOVE {
        st.ev(AEv { kind: AKind::Refused, ptr: 0, size, align, new_size: 0 });
        if st.announce_refusals { let _w = WindowOff::new(); eprintln!("ALLOC-REFUSED valid-layout size={size} align={align}"); }
        return std::ptr::null_mut();
    }
    if st.nlive == TABLE { st.err(AErr::TableFull); return System.alloc(Layout::from_size_align_unchecked(size, align)); }
    let a2 = 2 * align;
    let g = (GUARD_BYTES + a2 - 1) / a2 * a2;
    let front = g + align;           // aligned to `align`, deliberately not to 2*align
    let total = front + size + g;
    let base = System.alloc(Layout::from_size_align_unchecked(total, a2));
    if base.is_null() { return base; }
    std::ptr::write_bytes(base, GUARD, total);
    let user = base.add(front);
    std::ptr::write_bytes(user, POISON, size);
    st.table[st.nlive] = Entry { user: user as usize, base: base as usize, total, alloc_align: a2, size, align, front };
    st.nlive += 1;
    user
}

unsafe fn retire(st: &mut AState, idx: usize) {
    let e = st.table[idx];
    st.nlive -= 1;
    st.table[idx] = st.table[st.nlive];
    if !guards_ok(&e) { st.err(AErr::GuardDamaged { size: e.size }); }
    std::ptr::write_bytes(e.user as *mut u8, POISON, e.size);
    // restore guards so the later scan reports only new damage
    let base = e.base as *mut u8;
    std::ptr::write_bytes(base, GUARD, e.front);
    std::ptr::write_bytes(base.add(e.front + e.size), GUARD, e.total - e.front - e.size);
    if st.nquar == QUAR {
        let old = st.quar[0];
        st.quar.copy_within(1..QUAR, 0);
        st.nquar -= 1;
        scan_free(st, old);
    }
    st.quar[st.nquar] = e;
    st.nquar += 1;
}

/// Scan the quarantine (writes through stale pointers), free it, scan guards of live blocks.
pub fn flush() {
    with_as(|st| unsafe {
        let n = st.nquar;
        st.nquar = 0;
        for i in 0..n { let e = st.quar[i]; scan_free(st, e); }
        for i in 0..st.nlive { let e = st.table[i]; if !guards_ok(&e) { st.err(AErr::GuardDamaged { size: e.size }); } }
    });
}

/// Drop the bookkeeping of blocks that were leaked on purpose (faulted runs) and free them.
pub fn release_leaked() {
    with_as(|st| unsafe {
        while st.nlive > 0 {
            st.nlive -= 1;
            let e = st.table[st.nlive];
            System.dealloc(e.base as *mut u8, Layout::from_size_align_unchecked(e.total, e.alloc_align));
        }
    });
}

pub struct LogAlloc;

unsafe impl GlobalAlloc for LogAlloc {
    unsafe fn alloc(&self, layout: Layout) -> *mut u8 {
        if !window() { return System.alloc(layout); }
        with_as(|st| {
            st.allocs += 1;
            let p = lib_alloc(st, layout.size(), layout.align());
            st.ev(AEv { kind: AKind::Alloc, ptr: p as usize, size: layout.size(), align: layout.align(), new_size: 0 });
            p
        })
    }
    unsafe fn alloc_zeroed(&self, layout: Layout) -> *mut u8 {
        let p = self.alloc(layout);
        if !p.is_null() { std::ptr::write_bytes(p, 0, layout.size()); }
        p
    }
    unsafe fn dealloc(&self, ptr: *mut u8, layout: Layout) {
        let hit = with_as(|st| {
            match st.find(ptr as usize) {
                None => false,
                Some(i) => {
                    let e = st.table[i];
                    if e.size != layout.size() || e.align != layout.align() {
                        st.err(AErr::LayoutMismatch { recorded_size: e.size, recorded_align: e.align, got_size: layout.size(), got_align: layout.align() });
                    }
                    st.deallocs += 1;
                    st.ev(AEv { kind: AKind::Dealloc, ptr: ptr as usize, size: layout.size(), align: layout.align(), new_size: 0 });
                    retire(st, i);
                    true
                }
            }
        });
        if !hit {
            System.dealloc(ptr, layout);
        }
    }
    unsafe fn realloc(&self, ptr: *mut u8, layout: Layout, new_size: usize) -> *mut u8 {
        let r = with_as(|st| {
            match st.find(ptr as usize) {
                None => None,
                Some(i) => {
                    let e = st.table[i];
                    if e.size != layout.size() || e.align != layout.align() {
                        st.err(AErr::LayoutMismatch { recorded_size: e.size, recorded_align: e.align, got_size: layout.size(), got_align: layout.align() });
                    }
                    st.reallocs += 1;
                    let np = lib_alloc(st, new_size, e.align);
                    st.ev(AEv { kind: AKind::Realloc, ptr: ptr as usize, size: layout.size(), align: layout.align(), new_size });
                    if np.is_null() { return Some(np); }
                    std::ptr::copy_nonoverlapping(ptr, np, std::cmp::min(e.size, new_size));
                    // table may have been reordered by lib_alloc only by appending: index i still valid
                    retire(st, i);
                    Some(np)
                }
            }
        });
        match r {
            Some(p) => p,
            None => {
                System.realloc(ptr, layout, new_size)
            }
        }
    }
}
