//! Handle coherence (C13: write-then-read through every view pairing, swap for every handle pairing) and
//! type admission (C04: wrong runtime types, downcast guards, type reports).

use std::any::TypeId;
use std::mem::{size_of, ManuallyDrop};
use std::ptr::NonNull;

use any_vec::any_value::{AnyValue, AnyValueMut, AnyValueRaw, AnyValueSizeless, AnyValueSizelessMut, AnyValueTypeless, AnyValueTypelessMut, AnyValueWrapper};
use any_vec::{AnyVec, SatisfyTraits};

use crate::caps::{TrX, MX};
use crate::elem::{self, Elem, W8DX};
use crate::exec::{guarded, snap, snap_matches, Caught, Out, World};
use crate::types::*;

pub const N_WRITERS: u8 = 15;
pub const N_READERS: u8 = 14;
pub const N_SWAP_KINDS: u8 = 7;
pub const N_WRONG_TYPES: u8 = 7;

/// swap the bytes of `bytes` (one element) with a fresh value's bytes; the old value ends up in the temp and is dropped.
/// Returns the new id now stored in `bytes`.
fn write_bytes_fresh<T: Elem>(bytes: &mut [u8]) -> u16 {
    let _w = elem::WindowOff::new();
    let mut tmp = T::fresh();
    let id = tmp.id();
    let tb = unsafe { std::slice::from_raw_parts_mut(&mut tmp as *mut T as *mut u8, size_of::<T>()) };
    assert_eq!(tb.len(), bytes.len());
    for i in 0..tb.len() { std::mem::swap(&mut tb[i], &mut bytes[i]); }
    drop(tmp);
    id
}

impl<T: Elem + SatisfyTraits<Tr>, M: MX, Tr: TrX + ?Sized> World<T, M, Tr> {
    /// C13: mutate element `i` through writer kind `w`, read it back through reader kind `r`.
    pub fn do_write_read(&mut self, w: u8, r: u8, i: usize, out: &mut Out) {
        let len = self.ma.len();
        if i >= len || T::SIZE == 0 { out.outcome.push_str("n/a"); return; }
        let World { a, b, ma, mb, .. } = self;
        let sz = T::SIZE;
        // 1. write
        let via_handle = matches!(w, 6..=9 | 14);
        if matches!(w, 8 | 9 | 14) && i != len - 1 { out.outcome.push_str("n/a"); return; } // pop handles address the last element
        let res = guarded(|| -> u16 {
            match w {
                0 => { let mut e = a.at_mut(i); let t = e.downcast_mut::<T>().unwrap(); let _w = elem::WindowOff::new(); t.retag(); t.id() }
                1 => { let mut e = a.at_mut(i); write_bytes_fresh::<T>(e.as_bytes_mut()) }
                2 => { let mut t = a.downcast_mut::<T>().unwrap(); let x = t.at_mut(i); let _w = elem::WindowOff::new(); x.retag(); x.id() }
                3 => { let mut t = a.downcast_mut::<T>().unwrap(); let s = t.as_mut_slice(); let _w = elem::WindowOff::new(); s[i].retag(); s[i].id() }
                4 => { let bytes = a.as_bytes_mut(); write_bytes_fresh::<T>(&mut bytes[i * sz..(i + 1) * sz]) }
                5 => { let mut e = a.iter_mut().nth(i).unwrap(); let t = e.downcast_mut::<T>().unwrap(); let _w = elem::WindowOff::new(); t.retag(); t.id() }
                6 => { let mut h = a.remove(i); let id = { let t = h.downcast_mut::<T>().unwrap(); let _w = elem::WindowOff::new(); t.retag(); t.id() };
                       let seen = h.downcast_ref::<T>().unwrap().id(); assert_eq!(seen, id); b.as_mut().unwrap().push(h); id }
                7 => { let mut h = a.swap_remove(i); let id = write_bytes_fresh::<T>(h.as_bytes_mut()); b.as_mut().unwrap().push(h); id }
                8 => { let mut h = a.pop().unwrap(); let id = { let t = h.downcast_mut::<T>().unwrap(); let _w = elem::WindowOff::new(); t.retag(); t.id() };
                       let seen = h.downcast_ref::<T>().unwrap().id(); if seen != id { return u16::MAX; } b.as_mut().unwrap().push(h); id }
                9 => { let mut h = a.pop().unwrap(); let id = write_bytes_fresh::<T>(h.as_bytes_mut()); let seen = elem::id_of_bytes(h.as_bytes()); if seen != id { return u16::MAX; } b.as_mut().unwrap().push(h); id }
                // raw-pointer views of an element handle, the typed view's IndexMut / as_mut_ptr, unchecked downcast
                10 => { let mut e = a.at_mut(i); let p = e.as_bytes_mut_ptr(); write_bytes_fresh::<T>(unsafe { std::slice::from_raw_parts_mut(p, sz) }) }
                11 => { let mut t = a.downcast_mut::<T>().unwrap(); let x = t.iter_mut().nth(i).unwrap(); let _w = elem::WindowOff::new(); x.retag(); x.id() }
                12 => { let mut t = a.downcast_mut::<T>().unwrap(); let x = unsafe { &mut *t.as_mut_ptr().add(i) }; let _w = elem::WindowOff::new(); x.retag(); x.id() }
                13 => { let mut e = a.at_mut(i); let t = unsafe { e.downcast_mut_unchecked::<T>() }; let _w = elem::WindowOff::new(); t.retag(); t.id() }
                _ => { let mut h = a.pop().unwrap(); let p = h.as_bytes_mut_ptr(); let id = write_bytes_fresh::<T>(unsafe { std::slice::from_raw_parts_mut(p, sz) });
                       let seen = elem::id_of_bytes(unsafe { std::slice::from_raw_parts(h.as_bytes_ptr(), sz) }); if seen != id { return u16::MAX; } b.as_mut().unwrap().push(h); id }
            }
        });
        let new_id = match res {
            Ok(id) => id,
            Err(Caught::Injected) => { out.faulted = true; return; }
            Err(Caught::Panic(m)) => { out.fail(Class::Vec, "unexpected-panic", format!("writer {w} panicked: {m}")); out.faulted = true; return; }
        };
        // model
        if new_id == u16::MAX { out.fail(Class::Vec, "incoherent-view", format!("a value written through a mutable view of the pop handle (writer {w}) is not seen through its shared view")); out.faulted = true; return; }
        match w { 6 => { ma.remove(i); mb.push(Mv::Id(new_id)); } 7 => { ma.swap_remove(i); mb.push(Mv::Id(new_id)); } 8 | 9 | 14 => { ma.pop(); mb.push(Mv::Id(new_id)); } _ => ma[i] = Mv::Id(new_id) }
        // 2. read back through the reader kind (for handle writers the value now lives at the end of B)
        let seen: Result<u16, Caught> = if via_handle {
            let vb = b.as_ref().unwrap();
            let j = vb.len() - 1;
            guarded(|| read_through::<T, Tr, M::Aux>(vb, r, j))
        } else {
            let va = &*a;
            guarded(|| read_through::<T, Tr, M>(va, r, i))
        };
        match seen {
            Ok(id) if id == new_id => out.outcome.push_str("ok"),
            Ok(id) => out.fail(Class::Vec, "incoherent-view", format!("wrote id {new_id} at index {i} through writer {w}; reader {r} sees id {id}")),
            Err(Caught::Injected) => out.faulted = true,
            Err(Caught::Panic(m)) => out.fail(Class::Vec, "unexpected-panic", format!("reader {r} panicked: {m}")),
        }
    }

    /// C13: swap for every pairing of value-handle kinds, both dispatch orders.
    /// kinds: 0 wrapper (typed), 1 raw (untyped), 2 ElementMut of A[i], 3 remove handle of A (index i), 4 drained element of A, 5 ElementMut of B[0]
    pub fn do_swap(&mut self, lhs: u8, rhs: u8, i: usize, out: &mut Out) {
        let len = self.ma.len();
        let uses_a = |k: u8| matches!(k, 2 | 3 | 4 | 6);
        if (lhs == 6 || rhs == 6) && (len == 0 || i != len - 1) { out.outcome.push_str("n/a"); return; } // kind 6 = pop handle (last element)
        if (uses_a(lhs) && uses_a(rhs)) || (lhs == 5 && rhs == 5) { out.outcome.push_str("n/a"); return; }
        if (uses_a(lhs) || uses_a(rhs)) && i >= len { out.outcome.push_str("n/a"); return; }
        if T::SIZE == 0 { out.outcome.push_str("n/a"); return; }
        let World { a, b, ma, mb, .. } = self;
        let vb = b.as_mut().unwrap();
        // Each side is materialised as a place; `fin` consumes the place and tells which id it finally holds.
        // Because the handle types differ, the pairing is expanded by macro.
        let mut lw = ManuallyDrop::new(T::fresh()); // backing for raw kinds (lhs)
        let mut rw = ManuallyDrop::new(T::fresh()); // backing for raw kinds (rhs)
        let (lid0, rid0) = (lw.id(), rw.id());
        let lptr = NonNull::from(&mut *lw).cast::<u8>();
        let rptr = NonNull::from(&mut *rw).cast::<u8>();
        // before-ids of both places
        let before = |k: u8, own: u16, ma: &Vec<Mv>, mb: &Vec<Mv>| -> u16 { match k { 0 | 1 => own, 2 | 3 | 4 | 6 => match ma[i] { Mv::Id(x) => x, Mv::CloneOf(p) => p }, _ => match mb[0] { Mv::Id(x) => x, Mv::CloneOf(p) => p } } };
        let lb = before(lhs, lid0, ma, mb);
        let rb = before(rhs, rid0, ma, mb);
        // wrappers take ownership of the backing value
        let res = guarded(|| -> (u16, u16) {
            // every place is bound as `&mut X` with X: AnyValueMut
            macro_rules! with_place { ($k:expr, $ptr:expr, $backing:expr, |$p:ident| $body:expr) => {
                match $k {
                    0 => { let mut x = AnyValueWrapper::new(unsafe { ManuallyDrop::take($backing) }); let r = { let $p = &mut x; $body }; let v: T = x.downcast::<T>().unwrap(); let id = v.id(); *$backing = ManuallyDrop::new(v); (r, id) }
                    1 => { let mut x = unsafe { AnyValueRaw::new($ptr, size_of::<T>(), TypeId::of::<T>()) }; let r = { let $p = &mut x; $body }; (r, $backing.id()) }
                    2 => { let mut x = a.at_mut(i); let r = { let $p = &mut *x; $body }; let id = x.downcast_ref::<T>().unwrap().id(); (r, id) }
                    3 => { let mut x = a.remove(i); let r = { let $p = &mut x; $body }; let id = x.downcast_ref::<T>().unwrap().id(); vb.push(x); (r, id) }
                    4 => { let mut d = a.drain(i..i + 1); let mut x = d.next().unwrap(); let r = { let $p = &mut x; $body }; let id = x.downcast_ref::<T>().unwrap().id(); vb.push(x); drop(d); (r, id) }
                    6 => { let mut x = a.pop().unwrap(); let r = { let $p = &mut x; $body }; let id = x.downcast_ref::<T>().unwrap().id(); vb.push(x); (r, id) }
                    _ => { let mut x = vb.at_mut(0); let r = { let $p = &mut *x; $body }; let id = x.downcast_ref::<T>().unwrap().id(); (r, id) }
                }
            } }
            let ((_, rid), lid) = match rhs {
                0 => { let mut q = AnyValueWrapper::new(unsafe { ManuallyDrop::take(&mut rw) }); let x = with_place!(lhs, lptr, &mut lw, |p| p.swap(&mut q)); let v: T = q.downcast::<T>().unwrap(); let id = v.id(); rw = ManuallyDrop::new(v); (((), id), x.1) }
                1 => { let mut q = unsafe { AnyValueRaw::new(rptr, size_of::<T>(), TypeId::of::<T>()) }; let x = with_place!(lhs, lptr, &mut lw, |p| p.swap(&mut q)); (((), rw.id()), x.1) }
                _ => {
                    // rhs is a vector-backed place: lhs can only be wrapper / raw here (or an element of the other vector)
                    match lhs {
                        0 => { let mut p = AnyValueWrapper::new(unsafe { ManuallyDrop::take(&mut lw) }); let x = with_place!(rhs, rptr, &mut rw, |q| p.swap(&mut *q)); let v: T = p.downcast::<T>().unwrap(); let id = v.id(); lw = ManuallyDrop::new(v); (((), x.1), id) }
                        1 => { let mut p = unsafe { AnyValueRaw::new(lptr, size_of::<T>(), TypeId::of::<T>()) }; let x = with_place!(rhs, rptr, &mut rw, |q| p.swap(&mut *q)); (((), x.1), lw.id()) }
                        2 if rhs == 5 => { let mut p = a.at_mut(i); let mut q = vb.at_mut(0); p.swap(&mut *q); (((), q.downcast_ref::<T>().unwrap().id()), p.downcast_ref::<T>().unwrap().id()) }
                        5 if rhs == 2 => { let mut p = vb.at_mut(0); let mut q = a.at_mut(i); p.swap(&mut *q); (((), q.downcast_ref::<T>().unwrap().id()), p.downcast_ref::<T>().unwrap().id()) }
                        _ => { return (u16::MAX, u16::MAX); }
                    }
                }
            };
            (lid, rid)
        });
        // the backing values (whatever they hold now) are the harness's to drop
        let drop_backings = |lw: &mut ManuallyDrop<T>, rw: &mut ManuallyDrop<T>| { let _w = elem::WindowOff::new(); unsafe { ManuallyDrop::drop(lw); ManuallyDrop::drop(rw); } };
        match res {
            Err(Caught::Injected) => { out.faulted = true; drop_backings(&mut lw, &mut rw); return; }
            Err(Caught::Panic(m)) => { out.fail(Class::Vec, "unexpected-panic", format!("swap({lhs},{rhs}) panicked: {m}")); out.faulted = true; drop_backings(&mut lw, &mut rw); return; }
            Ok((lid, rid)) => {
                if lid == u16::MAX { out.outcome.push_str("n/a"); drop_backings(&mut lw, &mut rw); return; }
                if lid != rb || rid != lb { out.fail(Class::Vec, "swap-wrong", format!("swap(kind {lhs} holding {lb}, kind {rhs} holding {rb}) left lhs={lid} rhs={rid}")); }
                // model: places backed by vectors
                let put = |k: u8, newid: u16, ma: &mut Vec<Mv>, mb: &mut Vec<Mv>| match k {
                    2 => ma[i] = Mv::Id(newid),
                    3 | 4 | 6 => { ma.remove(i); mb.push(Mv::Id(newid)); }
                    5 => mb[0] = Mv::Id(newid),
                    _ => {}
                };
                put(lhs, rb, ma, mb);
                put(rhs, lb, ma, mb);
                out.outcome.push_str("ok");
            }
        }
        drop_backings(&mut lw, &mut rw);
    }

    /// C04: offer a value of a wrong runtime type `ty` to push / insert(idx)
    pub fn do_wrong_push_insert(&mut self, src: Src, at: Option<usize>, ty: u8, out: &mut Out) {
        let a = &mut self.a;
        let before_snap = snap::<T, Tr, M>(a);
        let cap_before = a.capacity();
        macro_rules! offer { ($x:ty, $mk:expr) => {{
            if TypeId::of::<$x>() == TypeId::of::<T>() { out.outcome.push_str("n/a"); return; }
            match src {
                Src::W => guarded(|| { let v: $x = $mk; match at { None => a.push(AnyValueWrapper::new(v)), Some(i) => a.insert(i, AnyValueWrapper::new(v)) } }),
                _ => { let mut v = ManuallyDrop::new({ let v: $x = $mk; v });
                       let raw = unsafe { AnyValueRaw::new(NonNull::from(&mut *v).cast::<u8>(), size_of::<$x>(), TypeId::of::<$x>()) };
                       let r = guarded(|| match at { None => a.push(raw), Some(i) => a.insert(i, raw) });
                       unsafe { ManuallyDrop::drop(&mut v); }
                       r }
            }
        }} }
        let wx_before = elem::with_reg(|r| (r.creates, r.drops));
        let r = match ty {
            0 => offer!(u64, 7u64), 1 => offer!(i64, -7i64), 2 => offer!(f64, 7.0f64), 3 => offer!([u8; 8], [7u8; 8]),
            4 => offer!(W8DX, W8DX::fresh()), 5 => offer!(u8, 7u8), _ => offer!((), ()),
        };
        match r {
            Err(Caught::Injected) => { out.faulted = true; return; }
            Err(Caught::Panic(_)) => out.outcome.push_str("rejected"),
            Ok(()) => out.fail(Class::Type, "wrong-type-admitted", format!("push/insert accepted a value of wrong type #{ty} into a vector of {}", T::NAME)),
        }
        if snap::<T, Tr, M>(&self.a) != before_snap { out.fail(Class::Type, "changed-by-rejected", "vector changed although the value was rejected".into()); }
        if self.a.capacity() != cap_before { out.fail(Class::Type, "changed-by-rejected", format!("a rejected value changed the capacity from {cap_before} to {}", self.a.capacity())); }
        if ty == 4 {
            let wx = elem::with_reg(|r| (r.creates, r.drops));
            if T::HAS_DROP && (wx.1 - wx_before.1) != 1 { out.fail(Class::Own, "rejected-value-drops", format!("rejected value destroyed {} times (want exactly once)", wx.1 - wx_before.1)); }
        }
    }

    /// C04: splice whose `bad_at`-th replacement item has a wrong runtime type
    pub fn do_wrong_splice(&mut self, a0: usize, b0: usize, rn: usize, bad_at: usize, ty: u8, out: &mut Out) {
        let len = self.ma.len();
        if !(a0 <= b0 && b0 <= len) || bad_at >= rn { out.outcome.push_str("n/a"); return; }
        if !M::RESIZABLE && len - (b0 - a0) + rn > self.a.capacity() { out.outcome.push_str("n/a"); return; }
        let wrong_tid = match ty { 0 => TypeId::of::<u64>(), 1 => TypeId::of::<i64>(), 2 => TypeId::of::<f64>(), 3 => TypeId::of::<[u8; 8]>(), 4 => TypeId::of::<W8DX>(), 5 => TypeId::of::<u8>(), _ => TypeId::of::<()>() };
        if wrong_tid == TypeId::of::<T>() { out.outcome.push_str("n/a"); return; }
        let a = &mut self.a;
        // items are raw values over caller-owned slots; item `bad_at` claims the wrong type id
        let mut store: [std::mem::MaybeUninit<T>; 4] = [const { std::mem::MaybeUninit::uninit() }; 4];
        for i in 0..rn { store[i].write(T::fresh()); }
        let base = store.as_mut_ptr() as *mut T;
        let r = guarded(|| {
            let items = (0..rn).map(|k| unsafe { AnyValueRaw::new(NonNull::new_unchecked(base.add(k)).cast::<u8>(), size_of::<T>(), if k == bad_at { wrong_tid } else { TypeId::of::<T>() }) });
            let d = a.splice(a0..b0, items);
            drop(d);
        });
        let taken: std::collections::HashSet<u16> = snap::<T, Tr, M>(&self.a).iter().map(|(id, _)| *id).collect();
        for i in 0..rn { let v = unsafe { store[i].assume_init_read() }; if T::SIZE != 0 && taken.contains(&v.id()) { std::mem::forget(v); } else { let _w = elem::WindowOff::new(); drop(v); } }
        out.faulted = true; // contents are only required to stay valid
        out.leak_ok = true;
        match r {
            Err(Caught::Injected) => {}
            Err(Caught::Panic(_)) => out.outcome.push_str("rejected"),
            Ok(()) => out.fail(Class::Type, "wrong-type-admitted", format!("splice accepted replacement item #{bad_at} of wrong type #{ty}")),
        }
    }

    /// C04: swap between a handle of the vector and a value of another type must panic and change nothing
    pub fn do_wrong_swap(&mut self, kind: u8, ty: u8, out: &mut Out) {
        let len = self.ma.len();
        if len == 0 { out.outcome.push_str("n/a"); return; }
        let a = &mut self.a;
        let before_snap = snap::<T, Tr, M>(a);
        macro_rules! go { ($x:ty, $mk:expr) => {{
            if TypeId::of::<$x>() == TypeId::of::<T>() || size_of::<$x>() != size_of::<T>() && false { out.outcome.push_str("n/a"); return; }
            let mut other = AnyValueWrapper::new({ let v: $x = $mk; v });
            guarded(|| match kind {
                0 => { let mut e = a.at_mut(0); e.swap(&mut other); }
                1 => { let mut e = a.at_mut(0); other.swap(&mut *e); }
                2 => { let mut h = a.pop().unwrap(); h.swap(&mut other); }
                _ => { let mut d = a.drain(0..1); let mut e = d.next().unwrap(); other.swap(&mut e); }
            })
        }} }
        let r = match ty { 0 => go!(u64, 7u64), 1 => go!(i64, -7i64), 2 => go!(f64, 7.0f64), 3 => go!([u8; 8], [7u8; 8]), 4 => go!(W8DX, W8DX::fresh()), 5 => go!(u8, 7u8), _ => go!((), ()) };
        match r {
            Err(Caught::Injected) => { out.faulted = true; return; }
            Err(Caught::Panic(_)) => out.outcome.push_str("rejected"),
            Ok(()) => out.fail(Class::Type, "wrong-type-swapped", format!("swap (kind {kind}) with a value of wrong type #{ty} did not panic")),
        }
        // after the panic the handle was dropped: for kinds 2/3 the element is removed (and destroyed) like with Vec
        let s = snap::<T, Tr, M>(&self.a);
        match kind {
            0 | 1 => if s != before_snap { out.fail(Class::Type, "changed-by-rejected", "vector changed by a rejected swap".into()); },
            2 => { self.ma.pop(); }
            _ => { self.ma.remove(0); }
        }
    }

    /// C04: downcast guards succeed exactly for the real type; reports describe the real type
    pub fn do_wrong_downcast(&mut self, kind: u8, ty: u8, out: &mut Out) {
        let len = self.ma.len();
        let a = &mut self.a;
        macro_rules! go { ($x:ty) => {{
            let same = TypeId::of::<$x>() == TypeId::of::<T>();
            let r: Result<Option<bool>, Caught> = guarded(|| match kind {
                0 => Some(a.downcast_ref::<$x>().is_some()),
                1 => Some(a.downcast_mut::<$x>().is_some()),
                2 => if len > 0 { Some(a.at(0).downcast_ref::<$x>().is_some()) } else { None },
                3 => if len > 0 { Some(a.at_mut(0).downcast_mut::<$x>().is_some()) } else { None },
                4 => if len > 0 { let e = a.at(0); Some(AnyValue::downcast_ref::<$x>(&*e).is_some()) } else { None },
                5 => if len > 0 { let mut e = a.at_mut(0); Some(AnyValueMut::downcast_mut::<$x>(&mut *e).is_some()) } else { None },
                6 => if len > 0 { let h = a.pop().unwrap(); Some(h.downcast_ref::<$x>().is_some()) } else { None },
                7 => if len > 0 { let mut h = a.pop().unwrap(); Some(h.downcast_mut::<$x>().is_some()) } else { None },
                8 => if len > 0 { let h = a.pop().unwrap(); let v = h.downcast::<$x>(); let ok = v.is_some(); drop(v); Some(ok) } else { None },
                9 => if len > 0 { let h = a.remove(0); let v = h.downcast::<$x>(); let ok = v.is_some(); drop(v); Some(ok) } else { None },
                10 => if len > 0 { let mut d = a.drain(0..1); let e = d.next().unwrap(); let v = e.downcast::<$x>(); let ok = v.is_some(); drop(v); Some(ok) } else { None },
                11 => { let w = AnyValueWrapper::new(T::fresh()); let ok = w.downcast_ref::<$x>().is_some(); Some(ok) }
                _ => { let w = AnyValueWrapper::new(T::fresh()); let v = w.downcast::<$x>(); let ok = v.is_some(); drop(v); Some(ok) }
            });
            (same, r)
        }} }
        let (same, r) = match ty { 0 => go!(u64), 1 => go!(i64), 2 => go!(f64), 3 => go!([u8; 8]), 4 => go!(W8DX), 5 => go!(u8), 6 => go!(()), _ => go!(T) };
        match r {
            Err(Caught::Injected) => { out.faulted = true; return; }
            Err(Caught::Panic(m)) => out.fail(Class::Type, "downcast-panicked", format!("downcast kind {kind} to type #{ty} panicked: {m}")),
            Ok(None) => { out.outcome.push_str("n/a"); return; }
            Ok(Some(ok)) => {
                if ok != same { out.fail(Class::Type, "downcast-guard", format!("downcast kind {kind} to type #{ty} returned {} (real type {}: {})", if ok { "Some" } else { "None" }, T::NAME, if same { "same" } else { "different" })); }
                out.outcome.push_str(if ok { "some" } else { "none" });
            }
        }
        // model: kinds 6..=10 removed one element (dropped with the handle or with the downcast result)
        match kind { 6 | 7 | 8 => { if len > 0 { self.ma.pop(); } } 9 | 10 => { if len > 0 { self.ma.remove(0); } } _ => {} }
    }

    /// C04: element_typeid / element_layout of the vector and of typed views
    /// variant 1: the published element functions (`element_clone()`, `element_drop()`) called by hand do to a scratch buffer
    /// exactly what the vector does with them: one `Clone` per element, one destructor run per element.
    pub fn do_element_fns(&mut self, out: &mut Out) {
        let a = &self.a;
        let len = a.len();
        let mut scratch: Vec<std::mem::MaybeUninit<T>> = { let _w = elem::WindowOff::new(); (0..len).map(|_| std::mem::MaybeUninit::uninit()).collect() };
        let base = scratch.as_mut_ptr() as *mut u8;
        let mut want: Vec<Mv> = Vec::new();
        match Tr::element_clone_fn(a) {
            Some(f) => {
                let before = elem::with_reg(|r| r.clones + r.zst_clones);
                let src = a.downcast_ref::<T>().unwrap().as_ptr() as *const u8;
                match guarded(|| unsafe { f(src, base, len) }) {
                    Ok(()) => {}
                    Err(Caught::Injected) => { out.faulted = true; return; }
                    Err(Caught::Panic(m)) => { out.fail(Class::Vec, "unexpected-panic", format!("element_clone() function panicked: {m}")); out.faulted = true; return; }
                }
                let n = elem::with_reg(|r| r.clones + r.zst_clones) - before;
                if n as usize != len { out.fail(Class::Vec, "clone-count", format!("element_clone()(src, dst, {len}) made {n} Clone calls")); out.faulted = true; return; }
                want.extend(self.ma.iter().map(|m| Mv::CloneOf(match m { Mv::Id(i) => *i, Mv::CloneOf(p) => *p })));
            }
            None => { for s in scratch.iter_mut() { let v = T::fresh(); want.push(Mv::Id(v.id())); s.write(v); } }
        }
        let got: crate::exec::Snap = scratch.iter().map(|s| { let t = unsafe { s.assume_init_ref() }; (t.id(), t.intact()) }).collect();
        if !snap_matches::<T>(&got, &want) { out.fail(Class::Vec, "clone-seq", format!("element_clone() function produced {:?}, want clones of {:?}", got, self.ma)); }
        let ids: Vec<u16> = got.iter().map(|g| g.0).collect();
        match a.element_drop() {
            Some(d) => {
                if let Err(x) = guarded(|| unsafe { d(base, len) }) { if matches!(x, Caught::Injected) { out.faulted = true; } else { out.fail(Class::Own, "drop-panicked", format!("element_drop() function panicked: {x:?}")); } return; }
                if T::SIZE != 0 && T::HAS_DROP { for id in &ids { if elem::state_of(*id) != elem::IdState::Dead { out.fail(Class::Own, "leak", format!("element_drop()(ptr, {len}) did not destroy id {id}")); } } }
            }
            None => { if T::HAS_DROP { out.fail(Class::Type, "element-drop", "element_drop() is None for an element type with drop glue".into()); } }
        }
        let s = snap::<T, Tr, M>(a);
        if !snap_matches::<T>(&s, &self.ma) { out.fail(Class::Vec, "seq-mismatch", "contents changed by calling the element functions on a scratch buffer".into()); }
        out.outcome.push_str("ok");
    }

    pub fn do_type_reports(&mut self, out: &mut Out) {
        let a = &self.a;
        if a.element_typeid() != TypeId::of::<T>() { out.fail(Class::Type, "element-typeid", "element_typeid() is not the element type".into()); }
        if a.element_layout() != std::alloc::Layout::new::<T>() { out.fail(Class::Type, "element-layout", format!("element_layout() = {:?}", a.element_layout())); }
        if a.element_drop().is_some() != std::mem::needs_drop::<T>() { out.fail(Class::Type, "element-drop", "element_drop() presence does not match needs_drop".into()); }
        for e in a.iter() {
            if e.value_typeid() != TypeId::of::<T>() || e.size() != size_of::<T>() { out.fail(Class::Type, "handle-report", "iterator item reports a wrong type id / size".into()); }
        }
        // owned wrapper and raw values describe their real type too
        {
            let w = AnyValueWrapper::new(T::fresh());
            if w.size() != size_of::<T>() || w.value_typeid() != TypeId::of::<T>() || w.as_bytes().len() != size_of::<T>() { out.fail(Class::Type, "handle-report", "AnyValueWrapper reports a wrong size / type id".into()); }
            let mut v = ManuallyDrop::new(T::fresh());
            let raw = unsafe { AnyValueRaw::new(NonNull::from(&mut *v).cast::<u8>(), size_of::<T>(), TypeId::of::<T>()) };
            if raw.size() != size_of::<T>() || raw.value_typeid() != TypeId::of::<T>() || raw.as_bytes().as_ptr() as usize != &*v as *const T as usize { out.fail(Class::Type, "handle-report", "AnyValueRaw reports a wrong size / type id / address".into()); }
            unsafe { ManuallyDrop::drop(&mut v); }
        }
        let s = snap::<T, Tr, M>(a);
        if !snap_matches::<T>(&s, &self.ma) { out.fail(Class::Vec, "seq-mismatch", "contents changed by read-only reports".into()); }
        out.outcome.push_str("ok");
    }
}

/// read element `i` of `v` through reader kind `r`
fn read_through<T: Elem, Tr: ?Sized + TrX, MV: MX>(v: &AnyVec<Tr, MV>, r: u8, i: usize) -> u16 {
    let sz = T::SIZE;
    match r {
        0 => v.at(i).downcast_ref::<T>().unwrap().id(),
        1 => elem::id_of_bytes(v.at(i).as_bytes()),
        2 => v.downcast_ref::<T>().unwrap().as_slice()[i].id(),
        3 => elem::id_of_bytes(&v.as_bytes()[i * sz..(i + 1) * sz]),
        4 => v.iter().nth(i).unwrap().downcast_ref::<T>().unwrap().id(),
        5 => v.downcast_ref::<T>().unwrap().get(i).unwrap().id(),
        6 => { let e = v.at(i); elem::id_of_bytes(unsafe { std::slice::from_raw_parts(e.as_bytes_ptr(), sz) }) }
        7 => v.downcast_ref::<T>().unwrap().iter().nth(i).unwrap().id(),
        8 => { let t = v.downcast_ref::<T>().unwrap(); unsafe { &*t.as_ptr().add(i) }.id() }
        9 => { let e = v.at(i); unsafe { e.downcast_ref_unchecked::<T>() }.id() }
        10 => { let n = v.len(); v.iter().rev().nth(n - 1 - i).unwrap().downcast_ref::<T>().unwrap().id() }
        11 => { let e = v.at(i); let c = e.clone(); drop(e); c.downcast_ref::<T>().unwrap().id() }
        12 => { let r = v.downcast_ref::<T>().unwrap(); let r2 = r.clone(); drop(r); r2.as_slice()[i].id() }
        // `Clone::clone_from` into a handle that referred to ANOTHER element
        _ => { let n = v.len(); let mut c = v.at(if i == 0 { n - 1 } else { 0 }).clone(); let e = v.at(i); c.clone_from(&e); drop(e); c.downcast_ref::<T>().unwrap().id() }
    }
}

/// A user-defined value handle: reads go to a shared source, the first write access detaches it into a private copy (the library may
/// only rely on the trait contract: `as_bytes_ptr` for reading, `as_bytes_mut_ptr` for writing - they need not be the same address).
pub struct CowValue<T: Elem> { shared: *const T, private: [std::mem::MaybeUninit<T>; 2], cur: usize, pub detached: bool }
impl<T: Elem> CowValue<T> {
    pub fn new(source: &ManuallyDrop<T>) -> Self { CowValue { shared: &**source as *const T, private: [std::mem::MaybeUninit::uninit(), std::mem::MaybeUninit::uninit()], cur: 0, detached: false } }
}
thread_local! {
    /// (calls of the overridden `move_into`, calls that came with a wrong `bytes_size`)
    pub static COW_MOVES: std::cell::Cell<(u32, u32)> = const { std::cell::Cell::new((0, 0)) };
}
impl<T: Elem> any_vec::any_value::AnyValueSizeless for CowValue<T> {
    type Type = any_vec::any_value::Unknown;
    fn as_bytes_ptr(&self) -> *const u8 { if self.detached { self.private[self.cur].as_ptr() as *const u8 } else { self.shared as *const u8 } }
    // a user may override the provided `move_into` (LazyClone does): consuming a value has to go through it
    unsafe fn move_into<KnownType: 'static>(self, out: *mut u8, bytes_size: usize) {
        COW_MOVES.with(|c| { let (n, bad) = c.get(); c.set((n + 1, bad + (bytes_size != size_of::<T>()) as u32)); });
        std::ptr::copy_nonoverlapping(self.as_bytes_ptr(), out, size_of::<T>());
    }
}
impl<T: Elem> any_vec::any_value::AnyValueSizelessMut for CowValue<T> {
    fn as_bytes_mut_ptr(&mut self) -> *mut u8 {
        // every exclusive access opens a new version: the value moves to the other private buffer, the old one is poisoned
        // (nothing in the trait says that two calls give the same address)
        if !self.detached { unsafe { std::ptr::copy_nonoverlapping(self.shared, self.private[0].as_mut_ptr(), 1); } self.cur = 0; self.detached = true; }
        else {
            let (old, new) = (self.cur, 1 - self.cur);
            unsafe { std::ptr::copy_nonoverlapping(self.private[old].as_ptr(), self.private[new].as_mut_ptr(), 1); std::ptr::write_bytes(self.private[old].as_mut_ptr() as *mut u8, elem::POISON, size_of::<T>()); }
            self.cur = new;
        }
        self.private[self.cur].as_mut_ptr() as *mut u8
    }
}
// ... and it is a lazy-clone source: `clone_into` is required, the library has to clone through it
impl<T: Elem> any_vec::any_value::AnyValueCloneable for CowValue<T> {
    unsafe fn clone_into(&self, out: *mut u8) {
        COW_MOVES.with(|c| { let (n, bad) = c.get(); c.set((n + 100, bad)); });
        let c: T = (*(self.as_bytes_ptr() as *const T)).clone();
        std::ptr::write(out as *mut T, c);
    }
}
impl<T: Elem> AnyValueTypeless for CowValue<T> { fn size(&self) -> usize { size_of::<T>() } }
impl<T: Elem> AnyValue for CowValue<T> { fn value_typeid(&self) -> TypeId { TypeId::of::<T>() } }
impl<T: Elem> AnyValueTypelessMut for CowValue<T> {}
impl<T: Elem> AnyValueMut for CowValue<T> {}

/// A second user-defined value: statically typed (`type Type = T`), but the carrier is BIGGER than the value it carries (a tag and a
/// reference beside it), and its `move_into` copies exactly the `bytes_size` bytes it is told to ("must be the correct object size").
#[repr(C)]
pub struct TagValue<T: Elem> { value: ManuallyDrop<T>, tag: [u64; 3] }
impl<T: Elem> TagValue<T> { pub fn new(v: T) -> Self { TagValue { value: ManuallyDrop::new(v), tag: [0xA5A5_A5A5_A5A5_A5A5; 3] } } }
impl<T: Elem> any_vec::any_value::AnyValueSizeless for TagValue<T> {
    type Type = T;
    fn as_bytes_ptr(&self) -> *const u8 { &*self.value as *const T as *const u8 }
    unsafe fn move_into<KnownType: 'static>(self, out: *mut u8, bytes_size: usize) {
        COW_MOVES.with(|c| { let (n, bad) = c.get(); c.set((n + 1, bad + (bytes_size != size_of::<T>()) as u32)); });
        std::ptr::copy_nonoverlapping(self.as_bytes_ptr(), out, bytes_size);
    }
}
impl<T: Elem> any_vec::any_value::AnyValueCloneable for TagValue<T> {
    unsafe fn clone_into(&self, out: *mut u8) {
        COW_MOVES.with(|c| { let (n, bad) = c.get(); c.set((n + 100, bad)); });
        std::ptr::write(out as *mut T, (*self.value).clone());
    }
}
impl<T: Elem> AnyValueTypeless for TagValue<T> { fn size(&self) -> usize { size_of::<T>() } }
impl<T: Elem> AnyValue for TagValue<T> { fn value_typeid(&self) -> TypeId { TypeId::of::<T>() } }

pub const N_USER_OPS: u8 = 11;

impl<T: Elem + SatisfyTraits<Tr>, M: MX, Tr: TrX + ?Sized> World<T, M, Tr> {
    /// C13 / C01: the user-defined handle swapped with element i (both dispatch orders), pushed, inserted at i
    pub fn do_user_value(&mut self, op: u8, i: usize, out: &mut Out) {
        let len = self.ma.len();
        if T::SIZE == 0 || (op < 2 && i >= len) || (op >= 3 && op < 6 && i > len) || (op >= 2 && !M::RESIZABLE && len >= self.a.capacity()) || (op == 5 && i != 0) || (op >= 6 && (i > len || (matches!(op, 6 | 9 | 10) && i != 0))) { out.outcome.push_str("n/a"); return; }
        if op >= 6 { self.do_tag_value(op, i, out); return; }
        let source = ManuallyDrop::new({ let _w = elem::WindowOff::new(); T::fresh() });
        let sid = source.id();
        let mut cow_slot = Some(CowValue::<T>::new(&source));
        COW_MOVES.with(|c| c.set((0, 0)));
        let a = &mut self.a;
        let cs = &mut cow_slot;
        let r = guarded(|| match op {
            0 => { let mut e = a.at_mut(i); e.swap(cs.as_mut().unwrap()); 0 }
            1 => { let mut e = a.at_mut(i); cs.as_mut().unwrap().swap(&mut *e); 0 }
            2 => { a.push(cs.take().unwrap()); 1 }
            3 => { a.insert(i, cs.take().unwrap()); 1 }
            4 => { let d = a.splice(i..i, [cs.take().unwrap()]); drop(d); 1 }
            _ => { use any_vec::any_value::AnyValueCloneable; let c = cs.as_ref().unwrap(); a.push(c.lazy_clone()); 2 }
        });
        match r {
            Err(Caught::Injected) => { out.faulted = true; out.leak_ok = true; return; }
            Err(Caught::Panic(m)) => { out.fail(Class::Vec, "unexpected-panic", format!("user-defined value handle, operation {op}: {m}")); out.faulted = true; out.leak_ok = true; return; }
            Ok(1) => {
                match op { 2 => self.ma.push(Mv::Id(sid)), _ => self.ma.insert(i, Mv::Id(sid)) }
                let (n, bad) = COW_MOVES.with(|c| c.get());
                if n != 1 { out.fail(Class::Vec, "user-value-move-into", format!("the vector consumed a user-defined value with {n} calls of its `move_into` (want exactly 1)")); }
                if bad != 0 { out.fail(Class::Vec, "user-value-move-into", "`move_into` was called with a bytes_size that is not the element size".into()); }
                out.outcome.push_str("ok");
                return;
            }
            Ok(2) => {
                // a lazy clone of the user value was pushed: one `clone_into`, the handle still owns its value
                self.ma.push(Mv::CloneOf(sid));
                let (n, _) = COW_MOVES.with(|c| c.get());
                if n != 100 { out.fail(Class::Vec, "user-value-clone-into", format!("a lazy clone of a user-defined value was consumed with {} clone_into / {} move_into calls of the value (want 1 / 0)", n / 100, n % 100)); }
                let _ = guarded(move || { let mut s = source; unsafe { ManuallyDrop::drop(&mut s); } });
                out.outcome.push_str("ok");
                return;
            }
            Ok(_) => {}
        }
        // after a swap: the element holds the handle's value, the handle (detached) holds the element's old value, the shared source
        // was only read
        let old = match self.ma[i] { Mv::Id(x) => x, Mv::CloneOf(p) => p };
        self.ma[i] = Mv::Id(sid);
        if source.id() != sid || !source.intact() { out.fail(Class::Vec, "user-value-source-written", format!("the swap wrote through the handle's READ pointer: its shared source now shows id {} (was {sid})", source.id())); }
        let cow = cow_slot.take().unwrap();
        if !cow.detached {
            out.fail(Class::Vec, "user-value-not-written", "the swap never asked the user-defined handle for its write pointer".into());
            // whatever was written into the shared source is a live value nobody owns any more
            let _ = guarded(move || { let mut s = source; unsafe { ManuallyDrop::drop(&mut s); } });
            out.leak_ok = true;
        } else {
            let held = unsafe { cow.private[cow.cur].assume_init_read() };
            if held.id() != old { out.fail(Class::Vec, "wrong-value", format!("after the swap the handle holds id {}, the element's old value was {old}", held.id())); }
            let _ = guarded(move || drop(held));
        }
        out.outcome.push_str("ok");
    }
}

impl<T: Elem + SatisfyTraits<Tr>, M: MX, Tr: TrX + ?Sized> World<T, M, Tr> {
    /// the statically typed, oversized user value: pushed (6), inserted at i (7), two of them spliced in at i (8), a lazy clone of it
    /// downcast (9) or pushed (10)
    fn do_tag_value(&mut self, op: u8, i: usize, out: &mut Out) {
        use any_vec::any_value::AnyValueCloneable;
        let len = self.ma.len();
        let need = if op == 8 { 2 } else if op == 9 { 0 } else { 1 };
        if !M::RESIZABLE && len + need > self.a.capacity() { out.outcome.push_str("n/a"); return; }
        COW_MOVES.with(|c| c.set((0, 0)));
        let (v1, v2) = { let _w = elem::WindowOff::new(); (T::fresh(), T::fresh()) };
        let (id1, id2) = (v1.id(), v2.id());
        let (t1, t2) = (TagValue::new(v1), TagValue::new(v2));
        let clones0 = elem::with_reg(|r| r.clones + r.zst_clones);
        let a = &mut self.a;
        let mut got: Option<u16> = None;
        let g = &mut got;
        // what is left to destroy by hand afterwards (values that were not consumed)
        let r = guarded(move || -> (Option<TagValue<T>>, Option<TagValue<T>>) { match op {
            6 => { a.push(t1); (None, Some(t2)) }
            7 => { a.insert(i, t1); (None, Some(t2)) }
            8 => { let d = a.splice(i..i, [t1, t2]); drop(d); (None, None) }
            9 => { let v: T = t1.lazy_clone().downcast::<T>().expect("downcast of a lazy clone of a user value"); *g = Some(v.id()); let _w = elem::WindowOff::new(); drop(v); (Some(t1), Some(t2)) }
            _ => { a.push(t1.lazy_clone()); (Some(t1), Some(t2)) }
        } });
        let (n, bad) = COW_MOVES.with(|c| c.get());
        match r {
            Err(Caught::Injected) => { out.faulted = true; out.leak_ok = true; return; }
            Err(Caught::Panic(m)) => { out.fail(Class::Vec, "unexpected-panic", format!("user-defined typed value, operation {op}: {m}")); out.faulted = true; out.leak_ok = true; return; }
            Ok((l1, l2)) => { let _ = guarded(move || { for l in [l1, l2].into_iter().flatten() { let mut l = l; unsafe { ManuallyDrop::drop(&mut l.value); } } }); }
        }
        if bad != 0 { out.fail(Class::Vec, "user-value-move-into", "`move_into` of a statically typed user value was called with a bytes_size that is not the element size".into()); }
        let clones = elem::with_reg(|r| r.clones + r.zst_clones) - clones0;
        match op {
            6 => { self.ma.push(Mv::Id(id1)); if n != 1 { out.fail(Class::Vec, "user-value-move-into", format!("push consumed the user value with {n} move_into calls")); } }
            7 => { self.ma.insert(i, Mv::Id(id1)); if n != 1 { out.fail(Class::Vec, "user-value-move-into", format!("insert consumed the user value with {n} move_into calls")); } }
            8 => { self.ma.insert(i, Mv::Id(id2)); self.ma.insert(i, Mv::Id(id1)); if n != 2 { out.fail(Class::Vec, "user-value-move-into", format!("splice consumed two user values with {n} move_into calls")); } }
            9 => {
                if n != 100 || clones != 1 { out.fail(Class::Vec, "user-value-clone-into", format!("downcast of a lazy clone of a user value: {} clone_into calls, {clones} Clone calls (want 1 / 1)", n / 100)); }
                if let Some(id) = got { if T::SIZE != 0 && elem::parent_of(id) != Some(id1) { out.fail(Class::Vec, "lazy-not-a-clone", format!("downcast of a lazy clone of a user value gave id {id}, whose parent is {:?} (source {id1})", elem::parent_of(id))); } }
            }
            _ => { self.ma.push(Mv::CloneOf(id1)); if n != 100 || clones != 1 { out.fail(Class::Vec, "user-value-clone-into", format!("push of a lazy clone of a user value: {} clone_into calls, {clones} Clone calls (want 1 / 1)", n / 100)); } }
        }
        out.outcome.push_str("ok");
    }
}
