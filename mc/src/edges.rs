//! Edge enumeration: which operation instances leave a state, per property and tier (DESIGN.md §3.5, §4).

use crate::exec::Runner;
use crate::types::*;

pub struct Bounds { pub lmax: usize, pub cmax: usize }

pub fn bounds(prop: Prop, tier: Tier) -> Bounds {
    let _ = prop;
    match tier { Tier::Quick => Bounds { lmax: 3, cmax: 6 }, Tier::Thorough => Bounds { lmax: 5, cmax: 12 } }
}

pub fn spare_modes(prop: Prop, tier: Tier) -> Vec<Spare> {
    match (prop, tier) {
        (_, Tier::Thorough) => vec![Spare::Pristine, Spare::Stale, Spare::Scrub],
        (Prop::C05, _) | (Prop::C03, _) => vec![Spare::Pristine, Spare::Stale],
        _ => vec![Spare::Stale],
    }
}

fn idx(len: usize) -> impl Iterator<Item = u8> { (0..=(len + 1) as u8).into_iter() }

pub fn srcs(r: &dyn Runner, tier: Tier, with_unchecked: bool) -> Vec<Src> {
    let mut v = vec![Src::W, Src::R];
    if with_unchecked { v.push(Src::UT); v.push(Src::US); }
    v.extend([Src::BPop, Src::BRemove(0), Src::BSwapRemove(0), Src::BDrainF, Src::BDrainB]);
    if tier == Tier::Thorough { v.extend([Src::BRemove(1), Src::BRemove(2), Src::BSwapRemove(1), Src::BSwapRemove(2)]); }
    if r.cloneable() {
        v.extend([Src::LzRef(1, 1), Src::LzMut(0, 2), Src::LzPop(1), Src::LzRemove(0, 1), Src::LzSwapRemove(0, 2), Src::LzDrained(1)]);
        if tier == Tier::Thorough {
            v.extend([Src::LzRef(0, 2), Src::LzRef(2, 3), Src::LzMut(1, 1), Src::LzMut(2, 3), Src::LzPop(2), Src::LzPop(3), Src::LzRemove(1, 2),
                Src::LzRemove(2, 3), Src::LzSwapRemove(1, 1), Src::LzSwapRemove(0, 3), Src::LzDrained(2), Src::LzDrained(3)]);
        }
    }
    v
}

pub fn sinks(r: &dyn Runner, _tier: Tier) -> Vec<Sink> {
    let mut v = vec![Sink::Drop, Sink::Downcast, Sink::DowncastRef, Sink::MutMoveB, Sink::PushB, Sink::InsertB0, Sink::SwapW, Sink::SwapRaw];
    if r.cloneable() { v.push(Sink::LazyB(1)); v.push(Sink::LazyB(2)); }
    v
}

/// element-wise families (C01)
pub fn elementwise(r: &dyn Runner, tier: Tier, st: &St, out: &mut Vec<Edge>) {
    let len = st.len as usize;
    let ss = srcs(r, tier, true);
    let sk = sinks(r, tier);
    out.push(Edge::Push(Api::Typed, Src::W));
    for s in &ss { out.push(Edge::Push(Api::Erased, *s)); }
    for i in idx(len) {
        out.push(Edge::Insert(Api::Typed, i, Src::W));
        for s in &ss { out.push(Edge::Insert(Api::Erased, i, *s)); }
    }
    out.push(Edge::Pop(Api::Typed, Sink::Downcast));
    for k in &sk { out.push(Edge::Pop(Api::Erased, *k)); }
    for i in idx(len) {
        out.push(Edge::Remove(Api::Typed, i, Sink::Downcast));
        out.push(Edge::SwapRemove(Api::Typed, i, Sink::Downcast));
        for k in &sk { out.push(Edge::Remove(Api::Erased, i, *k)); out.push(Edge::SwapRemove(Api::Erased, i, *k)); }
    }
    out.push(Edge::Clear(Api::Erased));
    out.push(Edge::Clear(Api::Typed));
    for api in [Api::Erased, Api::Typed] {
        for k in [GetKind::Get, GetKind::At, GetKind::GetMut, GetKind::AtMut, GetKind::GetUncheckedInRange] {
            for i in idx(len) { out.push(Edge::Get(api, k, i)); }
        }
        for k in [IterKind::Iter, IterKind::IterMut, IterKind::IntoIterRef, IterKind::IntoIterMut] { out.push(Edge::IterAll(api, k)); }
    }
}

pub fn edges_for(prop: Prop, tier: Tier, r: &dyn Runner, st: &St) -> Vec<Edge> {
    let mut v = Vec::new();
    match prop {
        Prop::C01 => elementwise(r, tier, st, &mut v),
        Prop::C03 | Prop::C05 => elementwise(r, tier, st, &mut v),
        _ => {}
    }
    v
}

/// Which oracle classes a property reports.
pub fn reports(prop: Prop, class: Class, e: &Edge) -> bool {
    let _ = e;
    if class == Class::Machinery { return true; }
    match prop {
        Prop::C01 | Prop::C02 | Prop::C08 | Prop::C09 | Prop::C13 | Prop::C17 | Prop::C19 => matches!(class, Class::Vec | Class::Type | Class::Iter),
        Prop::C03 => class == Class::Own,
        Prop::C04 => matches!(class, Class::Type | Class::Vec | Class::Own),
        Prop::C05 => class == Class::Mem,
        Prop::C06 | Prop::C07 => matches!(class, Class::Own | Class::Vec | Class::Mem),
        Prop::C10 => matches!(class, Class::Cap | Class::Vec),
        Prop::C11 => matches!(class, Class::Cap | Class::Vec | Class::Alloc),
        Prop::C12 => matches!(class, Class::Vec | Class::Mem),
        Prop::C14 => matches!(class, Class::Iter | Class::Vec),
        Prop::C18 => class == Class::Alloc,
    }
}
