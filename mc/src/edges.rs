//! Edge enumeration: which operation instances leave a state, per property and tier (DESIGN.md §3.5, §4).

use crate::exec::Runner;
use crate::types::*;

pub struct Bounds { pub lmax: usize, pub cmax: usize }

pub fn bounds(prop: Prop, tier: Tier) -> Bounds {
    // properties whose edge alphabets are small get a deeper length / capacity bound
    let cheap = matches!(prop, Prop::C04 | Prop::C07 | Prop::C08 | Prop::C09 | Prop::C11 | Prop::C13 | Prop::C17);
    match (tier, cheap) {
        (Tier::Quick, false) => Bounds { lmax: 3, cmax: 6 },
        (Tier::Quick, true) => Bounds { lmax: 4, cmax: 8 },
        (Tier::Thorough, false) => Bounds { lmax: 5, cmax: 12 },
        (Tier::Thorough, true) => Bounds { lmax: 6, cmax: 14 },
    }
}

pub fn spare_modes(prop: Prop, tier: Tier) -> Vec<Spare> {
    match (prop, tier) {
        (_, Tier::Thorough) => vec![Spare::Pristine, Spare::Stale, Spare::Scrub],
        (Prop::C05, _) | (Prop::C03, _) => vec![Spare::Pristine, Spare::Stale],
        _ => vec![Spare::Stale],
    }
}

fn idx(len: usize) -> impl Iterator<Item = u8> { (0..=(len + 1) as u8).into_iter() }

pub fn srcs(r: &dyn Runner, tier: Tier, with_unchecked: bool) -> Vec<Src> {
    let mut v = vec![Src::W, Src::R];
    if with_unchecked { v.push(Src::UT); v.push(Src::US); }
    v.extend([Src::BPop, Src::BRemove(0), Src::BSwapRemove(0), Src::BDrainF, Src::BDrainB]);
    if tier == Tier::Thorough { v.extend([Src::BRemove(1), Src::BRemove(2), Src::BSwapRemove(1), Src::BSwapRemove(2)]); }
    if r.cloneable() {
        v.extend([Src::LzRef(1, 1), Src::LzMut(0, 2), Src::LzPop(1), Src::LzRemove(0, 1), Src::LzSwapRemove(0, 2), Src::LzDrained(1)]);
        if tier == Tier::Thorough {
            v.extend([Src::LzRef(0, 2), Src::LzRef(2, 3), Src::LzMut(1, 1), Src::LzMut(2, 3), Src::LzPop(2), Src::LzPop(3), Src::LzRemove(1, 2),
                Src::LzRemove(2, 3), Src::LzSwapRemove(1, 1), Src::LzSwapRemove(0, 3), Src::LzDrained(2), Src::LzDrained(3)]);
        }
    }
    v
}

pub fn sinks(r: &dyn Runner, _tier: Tier) -> Vec<Sink> {
    let mut v = vec![Sink::Drop, Sink::Downcast, Sink::DowncastRef, Sink::DowncastUnchecked, Sink::MutMoveB, Sink::PushB, Sink::InsertB0, Sink::SwapW, Sink::SwapRaw];
    if r.cloneable() { v.push(Sink::LazyB(1)); v.push(Sink::LazyB(2)); }
    v
}

/// element-wise families (C01)
pub fn elementwise(r: &dyn Runner, tier: Tier, st: &St, out: &mut Vec<Edge>) {
    let len = st.len as usize;
    let ss = srcs(r, tier, true);
    let sk = sinks(r, tier);
    out.push(Edge::Push(Api::Typed, Src::W));
    for s in &ss { out.push(Edge::Push(Api::Erased, *s)); }
    for i in idx(len) {
        out.push(Edge::Insert(Api::Typed, i, Src::W));
        for s in &ss { out.push(Edge::Insert(Api::Erased, i, *s)); }
    }
    out.push(Edge::Pop(Api::Typed, Sink::Downcast));
    for k in &sk { out.push(Edge::Pop(Api::Erased, *k)); }
    for i in idx(len) {
        out.push(Edge::Remove(Api::Typed, i, Sink::Downcast));
        out.push(Edge::SwapRemove(Api::Typed, i, Sink::Downcast));
        for k in &sk { out.push(Edge::Remove(Api::Erased, i, *k)); out.push(Edge::SwapRemove(Api::Erased, i, *k)); }
    }
    out.push(Edge::Clear(Api::Erased));
    out.push(Edge::Clear(Api::Typed));
    out.push(Edge::DropVec);
    // values supplied by USER-DEFINED implementors of the value traits (type-erased copy-on-write handle, statically typed oversized carrier)
    for op in 0..crate::exec_handles::N_USER_OPS { for i in 0..=len as u8 { out.push(Edge::UserValue { op, i }); } }
    // moving the vector value (for inline backends the storage moves too): nothing may depend on where the vector lives
    for slot in 0..2u8 { for then in [0u8, 1, 3, 5, 10] { out.push(Edge::Relocate { slot, then }); } }
    for api in [Api::Erased, Api::Typed] {
        for k in [GetKind::Get, GetKind::At, GetKind::GetMut, GetKind::AtMut, GetKind::GetUncheckedInRange, GetKind::Index, GetKind::IndexMut] {
            for i in idx(len) { out.push(Edge::Get(api, k, i)); }
        }
        for k in [IterKind::Iter, IterKind::IterMut, IterKind::IntoIterRef, IterKind::IntoIterMut] { out.push(Edge::IterAll(api, k)); }
    }
}

fn pats_upto(n: usize) -> Vec<Pat> {
    let mut v = Vec::new();
    for k in 0..=n { for bits in 0..(1u16 << k) { v.push(Pat { n: k as u8, bits }); } }
    v
}

fn small_pats(k: usize) -> Vec<Pat> {
    // none, F, B, FB, all-front(+1 extra call)
    let mut v = vec![Pat::none(), Pat { n: 1, bits: 0 }, Pat { n: 1, bits: 1 }, Pat { n: 2, bits: 0b10 }, Pat::front(k as u8 + 1)];
    v.dedup();
    v
}

fn forms_for(a: usize, b: usize, len: usize) -> Vec<Form> {
    [Form::Excl, Form::RangeStruct, Form::Incl, Form::To, Form::ToIncl, Form::From, Form::Full, Form::ExStart, Form::ExStartIncl]
        .into_iter().filter(|f| crate::exec_range::form_ok(*f, a, b, len)).collect()
}

/// drain / splice families (C02)
pub fn ranges(r: &dyn Runner, tier: Tier, st: &St, with_splice: bool, out: &mut Vec<Edge>) {
    let len = st.len as usize;
    let sk = sinks(r, tier);
    let max_rn: u8 = if tier == Tier::Quick { 2 } else { 3 };
    for a in 0..=len {
        for b in a..=len {
            let k = b - a;
            let (a8, b8) = (a as u8, b as u8);
            // every RangeBounds form, trivial and full-front consumption
            for f in forms_for(a, b, len) {
                for api in [Api::Erased, Api::Typed] {
                    for pat in [Pat::none(), Pat::front(k as u8)] {
                        out.push(Edge::Drain { api, a: a8, b: b8, form: f, pat, sink: Sink::Downcast });
                        if with_splice { out.push(Edge::Splice { api, a: a8, b: b8, form: f, pat, sink: Sink::Downcast, rn: 1, rsrc: RSrc::W, lie: 0 }); }
                    }
                }
            }
            // plain form x every consumption pattern (incl. calls after exhaustion) x sink
            for pat in pats_upto(k + 2) {
                out.push(Edge::Drain { api: Api::Typed, a: a8, b: b8, form: Form::Excl, pat, sink: Sink::Downcast });
                for s in &sk { out.push(Edge::Drain { api: Api::Erased, a: a8, b: b8, form: Form::Excl, pat, sink: *s }); }
                if with_splice {
                    for rn in 0..=max_rn {
                        out.push(Edge::Splice { api: Api::Typed, a: a8, b: b8, form: Form::Excl, pat, sink: Sink::Downcast, rn, rsrc: RSrc::W, lie: 0 });
                        for s in [Sink::Drop, Sink::Downcast] { out.push(Edge::Splice { api: Api::Erased, a: a8, b: b8, form: Form::Excl, pat, sink: s, rn, rsrc: RSrc::W, lie: 0 }); }
                    }
                }
            }
            // every replacement source x length x sink with the small pattern set
            if with_splice {
                let mut rs = vec![RSrc::W, RSrc::R, RSrc::BDrain];
                if r.cloneable() { rs.push(RSrc::LzRefs); }
                if r.elem_size() == 0 { rs.retain(|x| *x != RSrc::R); }
                for rsrc in rs {
                    for rn in 0..=max_rn {
                        for pat in small_pats(k) {
                            for s in &sk {
                                let uses_b = matches!(s, Sink::MutMoveB | Sink::PushB | Sink::InsertB0 | Sink::LazyB(_));
                                if uses_b && matches!(rsrc, RSrc::BDrain | RSrc::LzRefs) { continue; }
                                out.push(Edge::Splice { api: Api::Erased, a: a8, b: b8, form: Form::Excl, pat, sink: *s, rn, rsrc, lie: 0 });
                            }
                        }
                    }
                }
            }
        }
    }
    // invalid ranges around the boundary and at usize::MAX
    let mut vals: Vec<u8> = (0..=(len + 1) as u8).collect();
    vals.push(254); vals.push(255);
    for &a in &vals {
        for &b in &vals {
            let (ua, ub) = (ix(a), ix(b));
            if crate::exec_range::range_valid(ua, ub, len) { continue; }
            for f in [Form::Excl, Form::Incl, Form::ExStart, Form::ExStartIncl] {
                if !crate::exec_range::form_ok(f, ua, ub, len) { continue; }
                for api in [Api::Erased, Api::Typed] {
                    out.push(Edge::Drain { api, a, b, form: f, pat: Pat::none(), sink: Sink::Drop });
                    if with_splice { out.push(Edge::Splice { api, a, b, form: f, pat: Pat::none(), sink: Sink::Drop, rn: 1, rsrc: RSrc::W, lie: 0 }); }
                }
            }
        }
    }
    if with_splice { for op in [4u8, 8] { for i in 0..=len as u8 { out.push(Edge::UserValue { op, i }); } } }
    for api in [Api::Erased, Api::Typed] {
        for o in [OverflowRange::EndInclMax, OverflowRange::StartExclMax, OverflowRange::StartExclMaxEndIncl] {
            out.push(Edge::DrainOverflow(api, o));
            if with_splice { out.push(Edge::SpliceOverflow(api, o)); }
        }
    }
}

/// std adaptors on the library's iterators (nth / nth_back / skip / step_by / rev / take / last / count ...)
pub fn adaptors(_r: &dyn Runner, _tier: Tier, st: &St, ranges_only: bool, out: &mut Vec<Edge>) {
    let len = st.len as usize;
    for op in crate::exec_range::adapt_ops() {
        for api in [Api::Erased, Api::Typed] {
            for a in 0..=len { for b in a..=len {
                out.push(Edge::DrainAdapt { api, a: a as u8, b: b as u8, op });
                for rn in [0u8, 2] { out.push(Edge::SpliceAdapt { api, a: a as u8, b: b as u8, op, rn }); }
            } }
            if !ranges_only { for kind in [IterKind::Iter, IterKind::IterMut] { out.push(Edge::IterAdapt { api, kind, op }); } }
        }
    }
}

/// a reduced set of adaptor edges for fault enumeration (C06): the skipping adaptors (nth, nth_back, skip, step_by), whose skipped
/// elements are destroyed by the iterator - a destructor that panics there must not lead to a second destruction when the iterator drops
pub fn adaptors_faulty(_r: &dyn Runner, st: &St, out: &mut Vec<Edge>) {
    let len = st.len as usize;
    for pre in 0..2u8 { for which in [0u8, 1, 2, 4] { for n in 1..=2u8 {
        let op = pre << 6 | which << 3 | n;
        for a in 0..=len { for b in a..=len { if b - a >= 2 {
            for api in [Api::Erased, Api::Typed] {
                out.push(Edge::DrainAdapt { api, a: a as u8, b: b as u8, op });
                out.push(Edge::SpliceAdapt { api, a: a as u8, b: b as u8, op, rn: 1 });
            }
        } } }
    } } }
}

/// iterator protocol (C14)
pub fn iter_protocol(_r: &dyn Runner, _tier: Tier, st: &St, out: &mut Vec<Edge>) {
    let len = st.len as usize;
    for api in [Api::Erased, Api::Typed] {
        for kind in [IterKind::Iter, IterKind::IterMut, IterKind::IntoIterRef, IterKind::IntoIterMut] {
            for pat in pats_upto(len + 3) {
                let shared = matches!(kind, IterKind::Iter | IterKind::IntoIterRef);
                out.push(Edge::IterProto { api, kind, pat, clone_at: pat.n + 1 });
                if shared { for c in 0..=pat.n { out.push(Edge::IterProto { api, kind, pat, clone_at: c }); } }
                // the same through `Clone::clone_from` (library iterators only; the typed view hands out std's slice iterators)
                if shared && api == Api::Erased { for c in 0..=pat.n { out.push(Edge::IterProto { api, kind, pat, clone_at: 100 + c }); } }
            }
        }
    }
    // range iterators: every sub-range x every pattern, items observed by value
    for a in 0..=len { for b in a..=len {
        for pat in pats_upto(b - a + 3) {
            for api in [Api::Erased, Api::Typed] {
                out.push(Edge::Drain { api, a: a as u8, b: b as u8, form: Form::Excl, pat, sink: Sink::Downcast });
                out.push(Edge::Splice { api, a: a as u8, b: b as u8, form: Form::Excl, pat, sink: Sink::Downcast, rn: 1, rsrc: RSrc::W, lie: 0 });
            }
        }
    } }
    // state changers so that the BFS reaches every (len, cap)
    out.push(Edge::Push(Api::Typed, Src::W));
    out.push(Edge::Pop(Api::Typed, Sink::Downcast));
}

/// replacement iterators whose `len()` lies: by a constant -2..=+2, or UNSTABLY (another answer on the second call than on the
/// first, `exec_range::UNSTABLE`). Only where the storage has guard zones. `full`: all consumption patterns for the constant liars.
pub fn liars(r: &dyn Runner, st: &St, full: bool, v: &mut Vec<Edge>) {
    if matches!(r.backend(), crate::caps::BK::Stack | crate::caps::BK::StackN) { return; }
    let len = st.len as usize;
    let unstable = 10..10 + crate::exec_range::UNSTABLE.len() as i8;
    for a in 0..=len { for b in a..=len { for rn in 0..=3u8 { for lie in [-2i8, -1, 1, 2].into_iter().chain(unstable.clone()) { for api in [Api::Erased, Api::Typed] {
        let pats: &[Pat] = if full && lie < 10 { &[Pat::none(), Pat { n: 1, bits: 0 }, Pat { n: 1, bits: 1 }, Pat { n: 2, bits: 0b10 }, Pat { n: 2, bits: 0 }] } else { &[Pat::none(), Pat { n: 1, bits: 0 }] };
        for pat in pats {
            v.push(Edge::Splice { api, a: a as u8, b: b as u8, form: Form::Excl, pat: *pat, sink: Sink::Drop, rn, rsrc: RSrc::W, lie });
        }
        if api == Api::Erased && r.elem_size() != 0 { v.push(Edge::Splice { api, a: a as u8, b: b as u8, form: Form::Excl, pat: Pat::none(), sink: Sink::Drop, rn, rsrc: RSrc::R, lie }); }
    } } } } }
}

/// clone families (C08)
pub fn clones(r: &dyn Runner, _tier: Tier, _st: &St, out: &mut Vec<Edge>) {
    use crate::exec_clone::{N_TARGETS, N_THEN};
    if r.cloneable() { for then in 0..2 * N_THEN { out.push(Edge::CloneVec { then }); } }
    if r.cloneable() { for dst in 0..crate::caps::N_FOREIGN { for then in 0..N_THEN { out.push(Edge::CloneFrom { dst, then }); } } }
    out.push(Edge::TypeReports(1)); // element_clone() / element_drop() functions called by hand
    for then in 0..N_THEN { out.push(Edge::CloneEmpty { then }); }
    for target in 0..N_TARGETS { for then in 0..N_THEN { out.push(Edge::CloneEmptyIn { target, then }); } }
}

/// lazy clone protocol (C09)
pub fn lazies(r: &dyn Runner, tier: Tier, st: &St, out: &mut Vec<Edge>) {
    // lazy clones of USER-DEFINED cloneable values work with every constraint set (the clone function travels with the value)
    for op in [5u8, 9, 10] { out.push(Edge::UserValue { op, i: 0 }); }
    if !r.cloneable() { return; }
    let len = st.len as usize;
    let maxd = 3;
    for src in 0..crate::exec_misc::LZ_SRCS { for j in 0..len as u8 {
        if src == 2 && j != 0 { continue; }
        for depth in 1..=maxd { for uses in 0..=3u8 { for how in 0..crate::exec_misc::LZ_HOWS { for copies in 0..=2u8 {
            if uses == 0 && how != 0 { continue; }
            if tier == Tier::Quick && copies == 1 { continue; }
            out.push(Edge::Lazy { src, j, depth, uses, how, copies });
        } } } }
    } }
}

/// forget families (C07)
pub fn forgets(_r: &dyn Runner, tier: Tier, st: &St, out: &mut Vec<Edge>) {
    use crate::exec_clone::N_THEN;
    let len = st.len as usize;
    let follows: Vec<u8> = if tier == Tier::Quick { vec![0, 1, 3, 5, 7, 9] } else { (0..N_THEN).collect() };
    for op in 0..3u8 { for idx in 0..len.max(1) as u8 { if op == 0 && idx != 0 { continue; } for &f in &follows { out.push(Edge::ForgetHandle { op, idx, follow: f }); } } }
    for a in 0..=len { for b in a..=len {
        for pat in pats_upto(b - a + 1) {
            for stage in 0..3u8 {
                if stage != 0 && pat.n == 0 { continue; }
                for &f in &follows {
                    if stage == 0 { out.push(Edge::ForgetRangeTyped { splice: false, a: a as u8, b: b as u8, pat, rn: 0, follow: f }); out.push(Edge::ForgetRangeTyped { splice: true, a: a as u8, b: b as u8, pat, rn: 2, follow: f }); }
                    out.push(Edge::ForgetRange { splice: false, a: a as u8, b: b as u8, pat, stage, rn: 0, follow: f });
                    for rn in [0u8, 2] { out.push(Edge::ForgetRange { splice: true, a: a as u8, b: b as u8, pat, stage, rn, follow: f }); }
                }
            }
        }
    } }
}

/// handle coherence (C13)
pub fn handles(_r: &dyn Runner, _tier: Tier, st: &St, out: &mut Vec<Edge>) {
    use crate::exec_handles::*;
    let len = st.len as usize;
    for api in [Api::Erased, Api::Typed] {
        for k in [GetKind::Get, GetKind::At, GetKind::GetMut, GetKind::AtMut, GetKind::GetUncheckedInRange, GetKind::Index, GetKind::IndexMut] { for i in idx(len) { out.push(Edge::Get(api, k, i)); } }
        for k in [IterKind::Iter, IterKind::IterMut, IterKind::IntoIterRef, IterKind::IntoIterMut] { out.push(Edge::IterAll(api, k)); }
    }
    for i in 0..len as u8 {
        for w in 0..N_WRITERS { for r in 0..N_READERS { out.push(Edge::WriteRead { w, r, i }); } }
        for lhs in 0..N_SWAP_KINDS { for rhs in 0..N_SWAP_KINDS { out.push(Edge::Swap { lhs, rhs, i }); } }
    }
    if len == 0 { for lhs in [0u8, 1, 5] { for rhs in [0u8, 1, 5] { out.push(Edge::Swap { lhs, rhs, i: 0 }); } } }
    // a user-defined AnyValueMut implementor swapped with / pushed / inserted at every position
    for op in 0..crate::exec_handles::N_USER_OPS { for i in 0..=len as u8 { out.push(Edge::UserValue { op, i }); } }
    // the i-th iterator item reached positionally (nth / nth_back / skip / rev().skip), also after advancing the front
    for op in crate::exec_range::adapt_ops() { if (op >> 3) & 7 <= 3 { for api in [Api::Erased, Api::Typed] { for kind in [IterKind::Iter, IterKind::IterMut] { out.push(Edge::IterAdapt { api, kind, op }); } } } }
}

/// type admission (C04)
pub fn wrong_types(_r: &dyn Runner, _tier: Tier, st: &St, out: &mut Vec<Edge>) {
    use crate::exec_handles::*;
    let len = st.len as usize;
    for ty in 0..N_WRONG_TYPES {
        for s in [Src::W, Src::R] {
            out.push(Edge::WrongPush(s, ty));
            for i in 0..=len as u8 { out.push(Edge::WrongInsert(i, s, ty)); }
        }
        for kind in 0..4u8 { out.push(Edge::WrongSwap(kind, ty)); }
    }
    for ty in 0..=N_WRONG_TYPES { for kind in 0..13u8 { out.push(Edge::WrongDowncast(kind, ty)); } }
    for a in 0..=len { for b in a..=len { for rn in 1..=3u8 { for bad_at in 0..rn { for ty in [1u8, 4] {
        out.push(Edge::WrongSpliceItem { a: a as u8, b: b as u8, rn, bad_at, ty });
    } } } } }
    out.push(Edge::TypeReports(0));
}

/// capacity family (C10)
pub fn capacity(r: &dyn Runner, tier: Tier, st: &St, lmax: usize, out: &mut Vec<Edge>) {
    if !r.resizable() { return; }
    let _ = tier;
    for api in [Api::Erased, Api::Typed] {
        for n in 0..=(lmax + 2) as u8 {
            for c in [CapCall::Reserve, CapCall::ReserveExact, CapCall::ShrinkTo] { out.push(Edge::Cap(api, c, n)); }
        }
        out.push(Edge::Cap(api, CapCall::ShrinkToFit, 0));
    }
    for n in 0..=(lmax + 2) as u8 { out.push(Edge::Cap(Api::Erased, CapCall::WithCapacity, n)); }
    if st.len <= 2 && st.spare != Spare::Scrub { out.push(Edge::Cap(Api::Typed, CapCall::PushRun, 0)); }
}

/// alphabet of the unmerged history cross-check (simple, state-changing operations of every kind)
pub fn history_alphabet(cloneable: bool, resizable: bool) -> Vec<Edge> {
    let mut v = vec![
        Edge::Push(Api::Typed, Src::W), Edge::Push(Api::Erased, Src::R), Edge::Push(Api::Erased, Src::BPop),
        Edge::Insert(Api::Erased, 0, Src::R), Edge::Insert(Api::Erased, 1, Src::W), Edge::Insert(Api::Typed, 0, Src::W),
        Edge::Pop(Api::Erased, Sink::Drop), Edge::Pop(Api::Erased, Sink::PushB), Edge::Remove(Api::Erased, 0, Sink::Downcast), Edge::SwapRemove(Api::Erased, 0, Sink::Drop), Edge::Remove(Api::Typed, 0, Sink::Downcast),
        Edge::Clear(Api::Erased),
        Edge::Drain { api: Api::Erased, a: 0, b: 1, form: Form::Excl, pat: Pat { n: 1, bits: 1 }, sink: Sink::Drop },
        Edge::Drain { api: Api::Typed, a: 0, b: 1, form: Form::Excl, pat: Pat::none(), sink: Sink::Downcast },
        Edge::Splice { api: Api::Erased, a: 0, b: 1, form: Form::Excl, pat: Pat::none(), sink: Sink::Drop, rn: 2, rsrc: RSrc::W, lie: 0 },
        Edge::Splice { api: Api::Typed, a: 0, b: 0, form: Form::Excl, pat: Pat::none(), sink: Sink::Downcast, rn: 1, rsrc: RSrc::W, lie: 0 },
    ];
    if resizable {
        v.extend([Edge::Cap(Api::Erased, CapCall::Reserve, 3), Edge::Cap(Api::Typed, CapCall::ReserveExact, 1), Edge::Cap(Api::Erased, CapCall::ShrinkToFit, 0), Edge::Cap(Api::Erased, CapCall::ShrinkTo, 1)]);
    }
    if cloneable { v.push(Edge::Push(Api::Erased, Src::LzRef(0, 1))); v.push(Edge::CloneVec { then: 0 }); }
    v
}

/// unmerged cross-check: every sequence of `depth` alphabet operations as ONE real history (only from empty initial states)
pub fn histories(r: &dyn Runner, tier: Tier, st: &St, out: &mut Vec<Edge>) {
    if st.len != 0 { return; }
    let n = history_alphabet(r.cloneable(), r.resizable()).len() as u8;
    let depth4 = tier == Tier::Thorough && st.cap <= 2 && st.spare == Spare::Pristine;
    for a in 0..n { for b in 0..n { for c in 0..n {
        if depth4 { for d in 0..n { out.push(Edge::History { a, b, c, d }); } } else { out.push(Edge::History { a, b, c, d: u8::MAX }); }
    } } }
}

/// raw parts (C17)
pub fn rawparts(_r: &dyn Runner, _tier: Tier, _st: &St, out: &mut Vec<Edge>) {
    for variant in 0..crate::exec_views::N_RAW_VARIANTS { for then in 0..crate::exec_clone::N_THEN { out.push(Edge::RawParts { variant, then }); } }
}

/// byte / slice views and placement (C12)
pub fn views(_r: &dyn Runner, _tier: Tier, _st: &St, out: &mut Vec<Edge>) {
    for variant in 0..4u8 { out.push(Edge::Bytes { variant, k: 0 }); }
    for variant in 4..6u8 { for k in 1..=2u8 { out.push(Edge::Bytes { variant, k }); } }
    for variant in 7..9u8 { for k in 1..=2u8 { out.push(Edge::Bytes { variant, k }); } }
    for k in 0..16u8 { out.push(Edge::Bytes { variant: 6, k }); }
}

/// three vectors exchanging elements (C03)
pub fn three(_r: &dyn Runner, _tier: Tier, st: &St, out: &mut Vec<Edge>) {
    let len = st.len as usize;
    for a in 0..=len { for b in a..=len { for rn in 0..=3u8 {
        for pat in pats_upto((b - a).min(3) + 1) { for variant in [0u8, 1] { out.push(Edge::Three { variant, a: a as u8, b: b as u8, rn, pat }); } }
        out.push(Edge::Three { variant: 3, a: a as u8, b: b as u8, rn, pat: Pat::none() });
    } } }
    for a in 0..len { for rn in 0..2u8 { out.push(Edge::Three { variant: 2, a: a as u8, b: a as u8, rn, pat: Pat::none() }); } }
}

fn movers(out: &mut Vec<Edge>) {
    out.push(Edge::Push(Api::Typed, Src::W));
    out.push(Edge::Pop(Api::Typed, Sink::Downcast));
}

/// edges from a wide state (len beyond the bound): every index for the shifting operations, boundary ranges for drain / splice
pub fn wide_edges(_r: &dyn Runner, st: &St, with_ranges: bool, out: &mut Vec<Edge>) {
    let len = st.len as usize;
    for i in 0..=len as u8 {
        for s in [Src::R, Src::UT, Src::W, Src::BPop] { out.push(Edge::Insert(Api::Erased, i, s)); }
        out.push(Edge::Insert(Api::Typed, i, Src::W));
    }
    for i in 0..len as u8 {
        for k in [Sink::Drop, Sink::Downcast] { out.push(Edge::Remove(Api::Erased, i, k)); out.push(Edge::SwapRemove(Api::Erased, i, k)); }
        out.push(Edge::Remove(Api::Typed, i, Sink::Downcast));
    }
    if with_ranges {
        let pts = [0, 1, len / 2, len - 1, len];
        for &a in &pts { for &b in &pts { if a <= b {
            for pat in [Pat::none(), Pat { n: 1, bits: 1 }, Pat { n: 2, bits: 0b10 }] {
                for api in [Api::Erased, Api::Typed] {
                    out.push(Edge::Drain { api, a: a as u8, b: b as u8, form: Form::Excl, pat, sink: Sink::Downcast });
                    for rn in [0u8, 1, 3] { out.push(Edge::Splice { api, a: a as u8, b: b as u8, form: Form::Excl, pat, sink: Sink::Downcast, rn, rsrc: if api == Api::Erased { RSrc::R } else { RSrc::W }, lie: 0 }); }
                }
            }
        } } }
    }
}

/// capacity calls from a big state: no-op and growing reserves, shrinks to / above / below every interesting target
fn big_caps(st: &St, out: &mut Vec<Edge>) {
    let (len, cap) = (st.len as usize, st.cap as usize);
    let grow = (cap - len + 1).min(255) as u8;
    for api in [Api::Erased, Api::Typed] {
        for c in [CapCall::Reserve, CapCall::ReserveExact] { for n in [0u8, 1, grow] { out.push(Edge::Cap(api, c, n)); } }
        out.push(Edge::Cap(api, CapCall::ShrinkToFit, 0));
        for n in [0usize, len, len + 1, cap, 255] { out.push(Edge::Cap(api, CapCall::ShrinkTo, n.min(255) as u8)); }
    }
}

/// reduced alphabets of the wide / big states (leaves of the exploration), per property
pub fn big_edges(prop: Prop, r: &dyn Runner, st: &St, v: &mut Vec<Edge>) {
    match prop {
        Prop::C01 => wide_edges(r, st, false, v),
        Prop::C02 => wide_edges(r, st, true, v),
        Prop::C03 | Prop::C05 => {
            wide_edges(r, st, true, v);
            if r.cloneable() { v.push(Edge::CloneVec { then: 0 }); }
            if prop == Prop::C05 { big_caps(st, v); }
        }
        Prop::C08 => {
            if r.cloneable() {
                for then in [0u8, 1, 4, crate::exec_clone::N_THEN + 4] { v.push(Edge::CloneVec { then }); }
                for dst in [0u8, 4, 5, 6] { v.push(Edge::CloneFrom { dst, then: 0 }); }
            }
            v.push(Edge::TypeReports(1));
            v.push(Edge::CloneEmpty { then: 1 });
        }
        Prop::C10 => big_caps(st, v),
        Prop::C17 => { for variant in 0..crate::exec_views::N_RAW_VARIANTS { v.push(Edge::RawParts { variant, then: 0 }); } }
        Prop::C18 => {
            big_caps(st, v);
            if r.cloneable() { v.push(Edge::CloneVec { then: 0 }); }
            v.push(Edge::RawParts { variant: 0, then: 0 });
            v.push(Edge::Insert(Api::Erased, 0, Src::W)); v.push(Edge::Remove(Api::Erased, 0, Sink::Drop)); v.push(Edge::Clear(Api::Erased));
        }
        _ => wide_edges(r, st, true, v),
    }
}

/// huge-vector operations (`exec_huge`), from the empty unallocated state only
fn huge(prop: Prop, r: &dyn Runner, st: &St, v: &mut Vec<Edge>) {
    if st.len != 0 || st.cap != 0 || st.spare == Spare::Scrub || !r.resizable() || r.elem_size() == 0 { return; }
    let ops: &[u8] = match prop {
        Prop::C01 => &[0, 1, 2, 3, 4, 5],
        Prop::C02 => &[6, 7, 8, 9, 10],
        Prop::C05 => &[0, 2, 6, 8, 12],
        Prop::C08 => &[11],
        Prop::C10 | Prop::C18 => &[12, 13],
        Prop::C14 => &[14, 15],
        _ => &[],
    };
    for &op in ops { v.push(Edge::Huge { op }); }
}

pub fn edges_for(prop: Prop, tier: Tier, r: &dyn Runner, st: &St) -> Vec<Edge> {
    let mut v = Vec::new();
    if st.len as usize > bounds(prop, tier).lmax && r.fixed_cap().is_none() {
        big_edges(prop, r, st, &mut v);
        return v;
    }
    huge(prop, r, st, &mut v);
    match prop {
        Prop::C01 => { elementwise(r, tier, st, &mut v); histories(r, tier, st, &mut v); }
        Prop::C02 => { ranges(r, tier, st, true, &mut v); adaptors(r, tier, st, true, &mut v); v.push(Edge::Push(Api::Typed, Src::W)); v.push(Edge::Pop(Api::Typed, Sink::Downcast)); }
        Prop::C14 => { iter_protocol(r, tier, st, &mut v); adaptors(r, tier, st, false, &mut v); }
        Prop::C08 => { clones(r, tier, st, &mut v); movers(&mut v); }
        Prop::C09 => { lazies(r, tier, st, &mut v); movers(&mut v); }
        Prop::C07 => { forgets(r, tier, st, &mut v); movers(&mut v); }
        Prop::C13 => { handles(r, tier, st, &mut v); movers(&mut v); }
        Prop::C18 => { rawparts(r, tier, st, &mut v); capacity(r, tier, st, bounds(prop, tier).lmax, &mut v); elementwise(r, tier, st, &mut v); ranges(r, tier, st, true, &mut v); clones(r, tier, st, &mut v); }
        Prop::C06 => {
            elementwise(r, tier, st, &mut v); ranges(r, tier, st, true, &mut v); clones(r, tier, st, &mut v); lazies(r, tier, st, &mut v); adaptors_faulty(r, st, &mut v);
            // a splice that exceeds a fixed capacity panics by contract; a second (injected) panic while it unwinds would abort the
            // process by Rust's own rules, which says nothing about the vector: such edges get no fault enumeration
            if let Some(cap) = r.fixed_cap() {
                let len = st.len as usize;
                v.retain(|e| match e { Edge::Splice { a, b, rn, .. } if ix(*a) <= ix(*b) && ix(*b) <= len => len - (ix(*b) - ix(*a)) + *rn as usize <= cap, _ => true });
            }
            liars(r, st, true, &mut v);
        }
        Prop::C17 => { rawparts(r, tier, st, &mut v); movers(&mut v); if r.resizable() { v.push(Edge::Cap(Api::Erased, CapCall::Reserve, 2)); v.push(Edge::Cap(Api::Erased, CapCall::ShrinkToFit, 0)); } }
        // inline storage with over-aligned elements (the C12 known finding): only address arithmetic on the empty vector, no element is ever touched
        Prop::C12 if matches!(r.backend(), crate::caps::BK::Stack | crate::caps::BK::StackN) && r.elem_align() > 8 => {
            for variant in 0..4u8 { v.push(Edge::Bytes { variant, k: 0 }); }
            for k in 0..16u8 { v.push(Edge::Bytes { variant: 6, k }); }
        }
        Prop::C12 => { views(r, tier, st, &mut v); capacity(r, tier, st, bounds(prop, tier).lmax, &mut v); elementwise(r, tier, st, &mut v); v.retain(|e| !matches!(e, Edge::Cap(_, CapCall::PushRun, _))); histories(r, tier, st, &mut v); }
        Prop::C19 => { elementwise(r, tier, st, &mut v); ranges(r, tier, st, true, &mut v); clones(r, tier, st, &mut v); }
        Prop::C11 => { elementwise(r, tier, st, &mut v); ranges(r, tier, st, true, &mut v); clones(r, tier, st, &mut v); }
        Prop::C10 => { capacity(r, tier, st, bounds(prop, tier).lmax, &mut v); elementwise(r, tier, st, &mut v); }
        Prop::C04 => { wrong_types(r, tier, st, &mut v); if r.tracked() { lazies(r, tier, st, &mut v); } v.retain(|e| !matches!(e, Edge::Lazy { uses, .. } if *uses > 1)); movers(&mut v); }
        Prop::C03 | Prop::C05 => {
            if prop == Prop::C05 { capacity(r, tier, st, bounds(prop, tier).lmax, &mut v); v.retain(|e| !matches!(e, Edge::Cap(_, CapCall::PushRun, _))); } elementwise(r, tier, st, &mut v); ranges(r, tier, st, true, &mut v); adaptors(r, tier, st, true, &mut v); clones(r, tier, st, &mut v); lazies(r, tier, st, &mut v); histories(r, tier, st, &mut v); three(r, tier, st, &mut v);
            // a failed (wrong-type) downcast is a value sink too: the handle must still destroy / keep its value exactly once
            // a safe but lying replacement iterator must not make the vector touch memory outside its storage either
            if prop == Prop::C05 { liars(r, st, false, &mut v); }
            // values moved out by hand and cut off with set_len belong to the caller (set_len destroys nothing)
            if prop == Prop::C03 { for variant in 7..9u8 { for k in 1..=2u8 { v.push(Edge::Bytes { variant, k }); } } }
            if prop == Prop::C03 { for ty in 0..=crate::exec_handles::N_WRONG_TYPES { for kind in 0..13u8 { v.push(Edge::WrongDowncast(kind, ty)); } } } }
        _ => {}
    }
    v
}

/// Which oracle classes a property reports.
pub fn reports(prop: Prop, class: Class, kind: &str, e: &Edge) -> bool {
    let _ = e;
    if class == Class::Machinery { return true; }
    if std::env::var("MC_ALL_CLASSES").is_ok() { return true; } // development aid: see every oracle's failures in this run
    match prop {
        Prop::C09 => matches!(class, Class::Vec | Class::Type | Class::Own),
        Prop::C19 => matches!(class, Class::Vec | Class::Type | Class::Iter | Class::Cap | Class::Alloc) || (class == Class::Mem && kind == "storage-misaligned"),
        Prop::C01 | Prop::C02 | Prop::C13 => matches!(class, Class::Vec | Class::Type | Class::Iter),
        Prop::C08 => matches!(class, Class::Vec | Class::Type | Class::Cap | Class::Mem),
        Prop::C03 => class == Class::Own,
        Prop::C04 => matches!(class, Class::Type | Class::Vec | Class::Own),
        // reads of unwritten / moved-out / stale memory surface as garbage (poison, broken canary) in a result
        Prop::C05 => class == Class::Mem || (class == Class::Own && matches!(kind, "garbage-visible" | "garbage-drop" | "clone-of-garbage")),
        // (a heap block that is never released although every vector was dropped is not "some elements are leaked")
        Prop::C06 => matches!(class, Class::Own | Class::Vec | Class::Mem) || (class == Class::Alloc && kind == "heap-leak"),
        Prop::C07 => matches!(class, Class::Own | Class::Vec | Class::Mem),
        Prop::C10 => matches!(class, Class::Cap | Class::Vec),
        // "splice beyond it leaves them valid": after a capacity panic no destroyed / moved-out value may be visible or destroyed again
        Prop::C11 => matches!(class, Class::Cap | Class::Vec | Class::Alloc) || (class == Class::Own && matches!(kind, "dead-visible" | "garbage-visible" | "duplicate" | "double-drop" | "garbage-drop")),
        Prop::C12 => matches!(class, Class::Vec | Class::Mem | Class::Cap),
        Prop::C17 => matches!(class, Class::Vec | Class::Type | Class::Own | Class::Alloc),
        Prop::C14 => class == Class::Iter,
        Prop::C18 => class == Class::Alloc,
    }
}
