//! Lazy-clone protocol (C09) and forget families (C07).

use any_vec::any_value::AnyValueWrapper;
use any_vec::{AnyVec, SatisfyTraits};

use crate::caps::{Consumer, InsertC, InsertUncheckedC, PushC, PushUncheckedC, SpliceC, TrX, MX};
use crate::elem::{self, Elem};
use crate::exec::{guarded, snap, snap_matches, Caught, Out, World};
use crate::types::*;

pub const LZ_SRCS: u8 = 6;
pub const LZ_HOWS: u8 = 9;

#[derive(Clone, Copy)]
struct LzPlan { depth: u8, uses: u8, how: u8, copies: u8 }

/// the different handle types only share `TrX`'s per-type methods; this macro applies a plan to one of them
macro_rules! lz_apply {
    ($feed:ident, $down:ident, $crea:ident, $rep:ident, $T:ty, $Tr:ty, $h:expr, $plan:expr, $b:expr, $d:expr, $got:expr, $reps:expr) => {{
        let p: LzPlan = $plan;
        $reps.push(<$Tr>::$rep($h, p.depth));
        <$Tr>::$crea($h, p.depth, p.copies);
        for u in 0..p.uses {
            match p.how {
                0 => <$Tr>::$feed($h, p.depth, $b, PushC),
                1 => <$Tr>::$feed($h, p.depth, $b, InsertC(0)),
                2 => { let at = 1 + u as usize; <$Tr>::$feed($h, p.depth, $b, InsertC(at)) }
                4 => <$Tr>::$feed($h, p.depth, $b, SpliceC(0)),
                5 => <$Tr>::$feed($h, p.depth, $b, PushUncheckedC),
                6 => <$Tr>::$feed($h, p.depth, $b, InsertUncheckedC(0)),
                // destination with ANOTHER constraint set (no Cloneable): the clone function travels with the lazy clone
                7 => <$Tr>::$feed($h, p.depth, $d, InsertC(0)),
                8 => <$Tr>::$feed($h, p.depth, $d, PushC),
                _ => { let v: Option<$T> = <$Tr>::$down::<$T, _>($h, p.depth); let v = v.expect("lazy clone downcast to the real type failed"); $got.push(v.id()); let _w = elem::WindowOff::new(); drop(v); }
            }
        }
        <$Tr>::$crea($h, p.depth, p.copies);
    }};
}

impl<T: Elem + SatisfyTraits<Tr>, M: MX, Tr: TrX + ?Sized> World<T, M, Tr> {
    /// C09: source kind x chain depth x number of consumptions x consumption kind x unconsumed copies
    pub fn do_lazy(&mut self, src: u8, j: u8, depth: u8, uses: u8, how: u8, copies: u8, out: &mut Out) {
        let len = self.ma.len();
        let j = j as usize;
        if len == 0 || j >= len { out.outcome.push_str("n/a"); return; }
        let plan = LzPlan { depth, uses, how, copies };
        let World { a, b, ma, mb, .. } = self;
        let b = b.as_mut().unwrap();
        // D: a vector of the same element type whose constraint set lacks Cloneable (pre-reserved outside the library window)
        let mut md: Vec<Mv> = Vec::with_capacity(8);
        let mut d: AnyVec<dyn any_vec::traits::None, M::Aux> = {
            let _w = elem::WindowOff::new();
            let mut d = if <M::Aux as MX>::SIZEABLE { <M::Aux as MX>::with_capacity::<T, dyn any_vec::traits::None>(16) } else { AnyVec::<dyn any_vec::traits::None, M::Aux>::new_in::<T>(<M::Aux as MX>::make()) };
            if how == 7 || how == 8 { let mut t = d.downcast_mut::<T>().unwrap(); for _ in 0..2 { let v = T::fresh(); md.push(Mv::Id(v.id())); t.push(v); } }
            d
        };
        let dd = &mut d;
        let before = elem::with_reg(|r| (r.clones + r.zst_clones, r.drops + r.zst_drops));
        let mut got: Vec<u16> = Vec::with_capacity(8);
        let g = &mut got;
        let mut reps: Vec<(usize, std::any::TypeId, u16)> = Vec::with_capacity(2);
        let rp = &mut reps;
        // (source id, what happens to the source in A afterwards)
        let src_id = match ma[if src == 2 { len - 1 } else { j }] { Mv::Id(i) => i, Mv::CloneOf(p) => p };
        let r = guarded(|| match src {
            0 => { let e = a.at(j); lz_apply!(lz_element, lzd_element, lzc_element, lzr_element, T, Tr, &*e, plan, b, dd, g, rp); }
            1 => { let e = a.at_mut(j); lz_apply!(lz_element, lzd_element, lzc_element, lzr_element, T, Tr, &*e, plan, b, dd, g, rp); }
            2 => { let h = a.pop().unwrap(); lz_apply!(lz_pop, lzd_pop, lzc_pop, lzr_pop, T, Tr, &h, plan, b, dd, g, rp); b.push(h); }
            3 => { let h = a.remove(j); lz_apply!(lz_remove, lzd_remove, lzc_remove, lzr_remove, T, Tr, &h, plan, b, dd, g, rp); b.push(h); }
            4 => { let h = a.swap_remove(j); lz_apply!(lz_swap_remove, lzd_swap_remove, lzc_swap_remove, lzr_swap_remove, T, Tr, &h, plan, b, dd, g, rp); b.push(h); }
            _ => { let mut d = a.drain(j..j + 1); let e = d.next().unwrap(); lz_apply!(lz_element, lzd_element, lzc_element, lzr_element, T, Tr, &e, plan, b, dd, g, rp); b.push(e); drop(d); }
        });
        match r {
            Err(Caught::Injected) => { out.faulted = true; Self::check_other::<dyn any_vec::traits::None>(&d, out); let _ = guarded(move || drop(d)); return; }
            Err(Caught::Panic(m)) => { out.fail(Class::Vec, "unexpected-panic", format!("lazy clone protocol panicked: {m}")); out.faulted = true; let _ = guarded(move || drop(d)); return; }
            Ok(()) => {}
        }
        for (sz, tid, bid) in &reps {
            if *sz != std::mem::size_of::<T>() { out.fail(Class::Type, "handle-size", format!("a depth-{depth} lazy clone reports size {sz} for a {}-byte element", std::mem::size_of::<T>())); }
            if *tid != std::any::TypeId::of::<T>() { out.fail(Class::Type, "handle-typeid", "a lazy clone reports a wrong value_typeid".into()); }
            if T::SIZE != 0 && *bid != src_id { out.fail(Class::Vec, "handle-bytes", format!("as_bytes of a lazy clone shows id {bid}, source is {src_id}")); }
        }
        let after = elem::with_reg(|r| (r.clones + r.zst_clones, r.drops + r.zst_drops));
        let clones = after.0 - before.0;
        if clones != uses as u32 { out.fail(Class::Vec, "lazy-clone-count", format!("{uses} consumption(s) of a depth-{depth} lazy clone (plus {copies} unconsumed copies) performed {clones} Clone call(s)")); }
        // destroyed: only the `uses` downcast results the harness dropped itself
        let expect_drops = if how == 3 { uses as u32 } else { 0 };
        if T::HAS_DROP && after.1 - before.1 != expect_drops { out.fail(Class::Own, "lazy-destroys", format!("lazy clone protocol destroyed {} value(s), expected {expect_drops}", after.1 - before.1)); }
        if T::SIZE != 0 { for id in &got { if elem::parent_of(*id) != Some(src_id) { out.fail(Class::Vec, "lazy-not-a-clone", format!("downcast of a lazy clone gave id {id} whose parent is {:?}, source is {src_id}", elem::parent_of(*id))); } } }
        // model: destination
        for u in 0..uses {
            match how { 0 | 5 => mb.push(Mv::CloneOf(src_id)), 1 | 4 | 6 => mb.insert(0, Mv::CloneOf(src_id)), 2 => mb.insert(1 + u as usize, Mv::CloneOf(src_id)), 7 => md.insert(0, Mv::CloneOf(src_id)), 8 => md.push(Mv::CloneOf(src_id)), _ => {} }
        }
        {
            let sd = snap::<T, dyn any_vec::traits::None, M::Aux>(&d);
            if !snap_matches::<T>(&sd, &md) { out.fail(Class::Vec, "other-seq-mismatch", format!("destination with another constraint set holds {:?}, model {:?}", sd, md)); }
            Self::check_other::<dyn any_vec::traits::None>(&d, out);
            let _ = guarded(move || drop(d));
        }
        // model: source, then (for handles) the source value itself moved to B's end, proving it stayed usable
        match src {
            0 | 1 => {}
            2 => { let x = ma.pop().unwrap(); mb.push(x); }
            3 => { let x = ma.remove(j); mb.push(x); }
            4 => { let x = ma.swap_remove(j); mb.push(x); }
            _ => { let x = ma.remove(j); mb.push(x); }
        }
        out.outcome.push_str("ok");
    }

    /// validity of an extra vector (also after a fault): every visible element alive, intact, once
    fn check_other<Tr2: ?Sized + TrX>(d: &AnyVec<Tr2, M::Aux>, out: &mut Out) {
        if T::SIZE == 0 { return; }
        let mut seen = std::collections::HashSet::new();
        for (id, ok) in snap::<T, Tr2, M::Aux>(d) {
            if !ok { out.fail(Class::Own, "garbage-visible", format!("destination vector shows id {id} with a broken canary")); continue; }
            if !seen.insert(id) { out.fail(Class::Own, "duplicate", format!("id {id} is visible twice in the destination vector")); }
            if T::HAS_DROP && elem::state_of(id) != elem::IdState::Live { out.fail(Class::Own, "dead-visible", format!("destination vector shows id {id} which is not alive")); }
        }
    }

    /// C07: forget a removal handle, then a follow-up operation
    pub fn do_forget_handle(&mut self, op: u8, idx: usize, follow: u8, out: &mut Out) {
        let len = self.ma.len();
        if (op == 0 && len == 0) || (op != 0 && idx >= len) { out.outcome.push_str("n/a"); return; }
        let affected = if op == 0 { len - 1 } else { idx };
        let a = &mut self.a;
        let r = guarded(|| match op {
            0 => std::mem::forget(a.pop().unwrap()),
            1 => std::mem::forget(a.remove(idx)),
            _ => std::mem::forget(a.swap_remove(idx)),
        });
        if let Err(e) = r { if matches!(e, Caught::Injected) { out.faulted = true; } else { out.fail(Class::Vec, "unexpected-panic", format!("{e:?}")); } return; }
        self.after_forget(affected, follow, out);
    }

    /// common oracle after a forget: prefix unchanged, survivors are unique live originals; then re-seed and follow up
    fn after_forget(&mut self, affected: usize, follow: u8, out: &mut Out) {
        out.leak_ok = true;
        let s = snap::<T, Tr, M>(&self.a);
        let orig: Vec<u16> = self.ma.iter().map(|m| match m { Mv::Id(i) => *i, Mv::CloneOf(p) => *p }).collect();
        if s.len() < affected.min(orig.len()) { out.fail(Class::Vec, "forget-prefix-lost", format!("after forget the vector has {} elements, the {} before the affected index must survive", s.len(), affected)); }
        if T::SIZE != 0 {
            for i in 0..affected.min(s.len()).min(orig.len()) {
                if s[i].0 != orig[i] { out.fail(Class::Vec, "forget-prefix-changed", format!("element {i} (before the affected index {affected}) changed: {} -> {}", orig[i], s[i].0)); }
            }
            for (id, _) in s.iter().skip(affected) {
                if !orig.contains(id) { out.fail(Class::Vec, "forget-foreign-element", format!("after forget the vector shows id {id} which was not one of its elements")); }
            }
        }
        if s.len() > orig.len() { out.fail(Class::Vec, "forget-grew", format!("after forget the vector has {} elements (had {})", s.len(), orig.len())); }
        // re-seed the model from what is observed (the order of survivors is not constrained)
        self.ma = s.iter().map(|(id, _)| Mv::Id(*id)).collect();
        crate::exec_clone::follow_up_pub::<T, Tr, M>(&mut self.a, &mut self.ma, follow, out);
        out.outcome.push_str("ok");
    }

    /// C07, typed view: forget the typed drain / splice iterator after taking `pat` items (owned values, dropped by the harness)
    pub fn do_forget_range_typed(&mut self, splice: bool, a0: usize, b0: usize, pat: Pat, rn: usize, follow: u8, out: &mut Out) {
        let len = self.ma.len();
        if !(a0 <= b0 && b0 <= len) { out.outcome.push_str("n/a"); return; }
        let a = &mut self.a;
        let n = pat.n as usize;
        let r = guarded(|| {
            let mut t = a.downcast_mut::<T>().unwrap();
            macro_rules! drive { ($d:expr) => {{
                let mut d = $d;
                for i in 0..n { let x = if pat.back(i) { d.next_back() } else { d.next() }; let _w = elem::WindowOff::new(); drop(x); }
                std::mem::forget(d);
            }} }
            if splice { let (it, _) = crate::exec_range::ReplT::<T>::new(rn, 0); drive!(t.splice(a0..b0, it)); } else { drive!(t.drain(a0..b0)); }
        });
        if let Err(e) = r { if matches!(e, Caught::Injected) { out.faulted = true; } else { out.fail(Class::Vec, "unexpected-panic", format!("{e:?}")); out.faulted = true; } return; }
        if splice {
            out.leak_ok = true;
            let s = snap::<T, Tr, M>(&self.a);
            let orig: Vec<u16> = self.ma.iter().map(|m| match m { Mv::Id(i) => *i, Mv::CloneOf(p) => *p }).collect();
            if T::SIZE != 0 { for i in 0..a0.min(s.len()) { if s[i].0 != orig[i] { out.fail(Class::Vec, "forget-prefix-changed", format!("element {i} before the range start {a0} changed")); } } }
            if s.len() < a0 { out.fail(Class::Vec, "forget-prefix-lost", format!("after forget the vector has {} elements, the {a0} before the range must survive", s.len())); }
            self.ma = s.iter().map(|(id, _)| Mv::Id(*id)).collect();
            crate::exec_clone::follow_up_pub::<T, Tr, M>(&mut self.a, &mut self.ma, follow, out);
            out.outcome.push_str("ok");
        } else {
            self.after_forget(a0, follow, out);
        }
    }

    /// C07: forget a drain / splice iterator at a stage of consumption, or an item it yielded
    pub fn do_forget_range(&mut self, splice: bool, a0: usize, b0: usize, pat: Pat, stage: u8, rn: usize, follow: u8, out: &mut Out) {
        let len = self.ma.len();
        if !(a0 <= b0 && b0 <= len) { out.outcome.push_str("n/a"); return; }
        let World { a, b, mb, ma, .. } = self;
        let vb = b.as_mut().unwrap();
        // items yielded before the forget point are moved into B (so a resurrected item shows up as a duplicate)
        let mut moved: Vec<Mv> = Vec::new();
        let mut dq: std::collections::VecDeque<Mv> = ma[a0..b0].iter().cloned().collect();
        let n = pat.n as usize;
        for i in 0..n { let x = if pat.back(i) { dq.pop_back() } else { dq.pop_front() }; if let Some(x) = x { moved.push(x); } }
        let forget_last_item = stage == 1 || stage == 2;
        let forget_iter = stage == 0 || stage == 2;
        let r = guarded(|| {
            macro_rules! drive { ($d:expr) => {{
                let mut d = $d;
                let mut last = None;
                for i in 0..n {
                    let e = if pat.back(i) { d.next_back() } else { d.next() };
                    if let Some(e) = e {
                        if let Some(prev) = last.take() { vb.push(prev); }
                        last = Some(e);
                    }
                }
                if let Some(l) = last { if forget_last_item { std::mem::forget(l); } else { vb.push(l); } }
                if forget_iter { std::mem::forget(d); } else { drop(d); }
            }} }
            if splice {
                let (it, _) = crate::exec_range::ReplT::<T>::new(rn, 0);
                drive!(a.splice(a0..b0, it.map(AnyValueWrapper::new)));
            } else {
                drive!(a.drain(a0..b0));
            }
        });
        if let Err(e) = r {
            let overfull = splice && !M::RESIZABLE && len - (b0 - a0) + rn > self.a.capacity();
            if matches!(e, Caught::Injected) { out.faulted = true; }
            else if overfull && !forget_iter { out.faulted = true; out.outcome.push_str("panic-full"); /* splice beyond fixed capacity: only validity is required */ }
            else { out.fail(Class::Vec, "unexpected-panic", format!("{e:?}")); out.faulted = true; }
            return;
        }
        if forget_last_item { moved.pop(); }
        mb.extend(moved);
        // replacement values of a splice are new elements, not "originals": allow them after the affected index
        if splice && !forget_iter {
            // iterator dropped normally => full Vec semantics apply (only a yielded item was leaked)
            let (_, _) = (rn, 0);
        }
        out.leak_ok = true;
        if splice {
            // survivors may include replacement values: widen the set of admissible ids with everything created so far
            let s = snap::<T, Tr, M>(&self.a);
            let orig: Vec<u16> = self.ma.iter().map(|m| match m { Mv::Id(i) => *i, Mv::CloneOf(p) => *p }).collect();
            if T::SIZE != 0 { for i in 0..a0.min(s.len()) { if s[i].0 != orig[i] { out.fail(Class::Vec, "forget-prefix-changed", format!("element {i} before the range start {a0} changed")); } } }
            if s.len() < a0 { out.fail(Class::Vec, "forget-prefix-lost", format!("after forget the vector has {} elements, the {a0} before the range must survive", s.len())); }
            self.ma = s.iter().map(|(id, _)| Mv::Id(*id)).collect();
            crate::exec_clone::follow_up_pub::<T, Tr, M>(&mut self.a, &mut self.ma, follow, out);
            out.outcome.push_str("ok");
        } else {
            self.after_forget(a0, follow, out);
        }
    }
}

impl<T: Elem + SatisfyTraits<Tr>, M: MX, Tr: TrX + ?Sized> World<T, M, Tr> {
    /// C03: three vectors A, B, C exchanging elements inside one operation.
    /// variant 0: A.splice(a..b, B.drain(0..rn)), items yielded per `pat` are pushed into C, the rest dropped with the iterator
    /// variant 1: like 0 but the yielded items are inserted at the front of C after an in-place mutation
    /// variant 2: C.push(A.remove(a)) then B.insert(0, C.pop()) then A.push(B.swap_remove(rn)) (a chain of moves)
    /// variant 3 (cloneable): C gets lazy clones of every element of A while B.drain(..rn) is spliced into A afterwards
    pub fn do_three(&mut self, variant: u8, a0: usize, b0: usize, rn: usize, pat: Pat, out: &mut Out) {
        let len = self.ma.len();
        if !(a0 <= b0 && b0 <= len) || rn > crate::exec::B_LEN { out.outcome.push_str("n/a"); return; }
        if !M::RESIZABLE && len - (b0 - a0) + rn > self.a.capacity() { out.outcome.push_str("n/a"); return; }
        if variant == 2 && (len == 0 || a0 >= len || rn >= crate::exec::B_LEN || (!M::RESIZABLE && len > self.a.capacity())) { out.outcome.push_str("n/a"); return; }
        if variant == 3 && !Tr::CLONEABLE { out.outcome.push_str("n/a"); return; }
        let World { a, b, ma, mb, .. } = self;
        let vb = b.as_mut().unwrap();
        let mut c: AnyVec<Tr, M::Aux> = elem::lib(|| if <M::Aux as MX>::SIZEABLE { <M::Aux as MX>::with_capacity::<T, Tr>(16) } else { AnyVec::<Tr, M::Aux>::new_in::<T>(<M::Aux as MX>::make()) });
        let mut mc: Vec<Mv> = Vec::with_capacity(16);
        let n = pat.n as usize;
        let r = guarded(|| match variant {
            0 | 1 => {
                let repl = vb.drain(0..rn);
                let mut d = a.splice(a0..b0, repl);
                for i in 0..n {
                    let e = if pat.back(i) { d.next_back() } else { d.next() };
                    if let Some(mut e) = e {
                        if variant == 1 { { let t = e.downcast_mut::<T>().unwrap(); let _w = elem::WindowOff::new(); t.retag(); } c.insert(0, e); } else { c.push(e); }
                    }
                }
                drop(d);
            }
            2 => { c.push(a.remove(a0)); vb.insert(0, c.pop().unwrap()); a.push(vb.swap_remove(rn + 1)); }
            _ => {
                for e in a.iter() { Tr::lz_element(&*e, 1, &mut c, PushC); }
                let d = a.splice(a0..b0, vb.drain(0..rn));
                drop(d);
            }
        });
        match r {
            Err(Caught::Injected) => { out.faulted = true; }
            Err(Caught::Panic(m)) => { out.fail(Class::Vec, "unexpected-panic", format!("three-vector operation panicked: {m}")); out.faulted = true; }
            Ok(()) => {
                // model
                match variant {
                    0 | 1 => {
                        let repl: Vec<Mv> = mb.drain(0..rn).collect();
                        let mut removed: std::collections::VecDeque<Mv> = ma.splice(a0..b0, repl).collect();
                        for i in 0..n { let x = if pat.back(i) { removed.pop_back() } else { removed.pop_front() }; if let Some(x) = x { if variant == 1 { mc.insert(0, Mv::CloneOf(u16::MAX)); let _ = x; } else { mc.push(x); } } }
                    }
                    2 => { let x = ma.remove(a0); mb.insert(0, x); let y = mb.swap_remove(rn + 1); ma.push(y); }
                    _ => { for m in ma.iter() { mc.push(Mv::CloneOf(match m { Mv::Id(i) => *i, Mv::CloneOf(p) => *p })); } let repl: Vec<Mv> = mb.drain(0..rn).collect(); ma.splice(a0..b0, repl); }
                }
                let sc = snap::<T, Tr, M::Aux>(&c);
                let ok = if variant == 1 { sc.len() == mc.len() && sc.iter().all(|x| x.1) } else { crate::exec::snap_matches::<T>(&sc, &mc) };
                if !ok { out.fail(Class::Vec, "third-seq-mismatch", format!("third vector holds {:?}, model {:?}", sc.iter().map(|x| x.0).collect::<Vec<_>>(), mc)); }
                // no element in two of the three vectors
                if T::SIZE != 0 {
                    let sa = snap::<T, Tr, M>(a); let sb = snap::<T, Tr, M::Aux>(vb);
                    let mut seen = std::collections::HashSet::new();
                    for (id, _) in sa.iter().chain(sb.iter()).chain(sc.iter()) { if !seen.insert(*id) { out.fail(Class::Own, "duplicate", format!("id {id} is visible in two of the three vectors")); } }
                    for (id, okc) in sc.iter() { if !*okc || (T::HAS_DROP && elem::state_of(*id) != elem::IdState::Live) { out.fail(Class::Own, "dead-visible", format!("third vector shows id {id} which is not alive / intact")); } }
                }
                out.outcome.push_str("ok");
            }
        }
        let _ = guarded(move || drop(c));
    }
}

#[allow(dead_code)]
fn _unused<Tr: ?Sized + TrX, M: MX>(_: &AnyVec<Tr, M>) where PushC: Consumer<Tr, M> {}

impl<T: Elem + SatisfyTraits<Tr>, M: MX, Tr: TrX + ?Sized> World<T, M, Tr> {
    /// Move the vector value bitwise into slot `slot` of a heap arena (slots lie `size_of::<AnyVec>()` apart, so two of them
    /// differ in their address residues), read everything back there, run one follow-up operation, read back again, move it home.
    /// A vector is an ordinary movable value: contents, views and behaviour may not depend on its address (self-referential caches,
    /// offsets computed from the address at construction time).
    pub fn do_relocate(&mut self, slot: u8, then: u8, out: &mut Out) {
        use std::mem::MaybeUninit;
        let mut arena: Box<[MaybeUninit<any_vec::AnyVec<Tr, M>>; 3]> = { let _w = elem::WindowOff::new(); Box::new([MaybeUninit::uninit(), MaybeUninit::uninit(), MaybeUninit::uninit()]) };
        let k = (slot % 3) as usize;
        let home = &mut self.a as *mut any_vec::AnyVec<Tr, M>;
        unsafe { arena[k].as_mut_ptr().write(std::ptr::read(home)); }
        {
            let v: &mut any_vec::AnyVec<Tr, M> = unsafe { &mut *arena[k].as_mut_ptr() };
            let s = snap::<T, Tr, M>(v);
            if v.len() != self.ma.len() || !snap_matches::<T>(&s, &self.ma) { out.fail(Class::Vec, "moved-seq-mismatch", format!("after moving the vector value to another address it reads {:?}, model {:?}", s, self.ma)); }
            let base = v.downcast_ref::<T>().map(|t| t.as_ptr() as usize).unwrap_or(0);
            if base % T::ALIGN == 0 {
                let b = v.as_bytes();
                if b.as_ptr() as usize != base || b.len() != v.len() * T::SIZE { out.fail(Class::Vec, "views-incoherent", format!("moved vector: as_bytes covers {:#x}+{} but the typed slice is {base:#x}+{}x{}", b.as_ptr() as usize, b.len(), v.len(), T::SIZE)); }
                if T::SIZE != 0 && !self.ma.is_empty() && out.fails.is_empty() {
                    let id = elem::id_of_bytes(&b[0..T::SIZE]);
                    if !crate::exec::mv_match(self.ma[0], id) { out.fail(Class::Vec, "moved-seq-mismatch", format!("moved vector: the byte view starts with id {id}, model {:?}", self.ma[0])); }
                }
            }
            if out.fails.is_empty() {
                let World { ma, .. } = self;
                crate::exec_clone::follow_up_pub::<T, Tr, M>(v, ma, then, out);
                let s2 = snap::<T, Tr, M>(v);
                if !out.faulted && !snap_matches::<T>(&s2, ma) { out.fail(Class::Vec, "moved-seq-mismatch", format!("moved vector after operation {then}: {:?}, model {:?}", s2, ma)); }
            }
        }
        unsafe { std::ptr::write(home, std::ptr::read(arena[k].as_ptr())); }
        { let _w = elem::WindowOff::new(); drop(arena); }
        out.outcome.push_str("ok");
    }
}

impl<T: Elem + SatisfyTraits<Tr>, M: MX, Tr: TrX + ?Sized> World<T, M, Tr> {
    /// Drop the vector itself. A panicking element destructor inside the vector's own Drop may leak the remaining elements, but the
    /// storage still has to be released (the leak oracles of `finish` stay armed after a fault) and nothing is destroyed twice.
    pub fn do_drop_vec(&mut self, out: &mut Out) {
        let home = &mut self.a as *mut AnyVec<Tr, M>;
        let a = unsafe { std::ptr::read(home) };
        let r = guarded(move || drop(a));
        // a fresh empty vector takes its place
        let fresh = AnyVec::<Tr, M>::new_in::<T>(M::make());
        unsafe { std::ptr::write(home, fresh); }
        self.ma.clear();
        match r {
            Ok(()) => out.outcome.push_str("ok"),
            Err(Caught::Injected) => out.faulted = true,
            Err(Caught::Panic(m)) => out.fail(Class::Own, "drop-panicked", format!("dropping the vector panicked: {m}")),
        }
    }
}
