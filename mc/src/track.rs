//! Instrumented user-defined storage backends (DESIGN.md §3.3):
//! `Track` (resizable; relocates on every capacity change, guard zones, poison, quarantine, event log),
//! `TrackFixed<N>` (the same without `MemResizable`: fixed capacity of N elements).
//! Blocks come straight from `System`, so the logging global allocator never sees them.

use any_vec::mem::{Mem, MemBuilder, MemBuilderSizeable, MemResizable};
use std::alloc::{GlobalAlloc, Layout, System};
use std::cell::RefCell;

use crate::elem::{WindowOff, GUARD, POISON};

#[derive(Clone, Debug, PartialEq, Eq)]
pub enum TEv {
    Build { serial: u32, size: usize, align: usize, cap: usize },
    Expand { serial: u32, add: usize, old: usize, new: usize },
    ExpandExact { serial: u32, add: usize, old: usize, new: usize },
    Resize { serial: u32, old: usize, new: usize },
    Drop { serial: u32, cap: usize },
}

struct Block {
    base: *mut u8,
    total: usize,
    alloc_align: usize,
    payload: *mut u8,
    payload_len: usize,
    front: usize,
    /// electric-fence block: (mapping start, mapping length); the block is surrounded by an inaccessible page
    map: Option<(usize, usize)>,
    /// fenced block that was released: the whole mapping is inaccessible (any stale read or write faults)
    sealed: bool,
}

const PAGE: usize = 4096;

#[derive(Default)]
pub struct TrackState {
    pub events: Vec<TEv>,
    pub errs: Vec<String>,
    live: Vec<(u32, Block)>,
    quarantine: Vec<(u32, Block)>,
    next_serial: u32,
    /// storages built while this is set hold another element type on purpose (C08 clone_from destinations):
    /// the element-layout check of `lifecycle_errors` skips them
    pub foreign: bool,
    foreign_serials: Vec<u32>,
    /// `as_mut_ptr` calls per storage serial
    pub as_mut_by_serial: Vec<u32>,
    /// when set, `expand` (amortised growth) grows by doubling like Heap; always true – kept for clarity
    pub relocations: u32,
}

thread_local! {
    static TS: RefCell<TrackState> = RefCell::new(TrackState::default());
    /// calls of `Mem::as_mut_ptr` on instrumented backends (a read-only operation must not ask for the write pointer)
    pub static AS_MUT_CALLS: std::cell::Cell<u64> = const { std::cell::Cell::new(0) };
}

pub fn with_ts<R>(f: impl FnOnce(&mut TrackState) -> R) -> R {
    let _w = WindowOff::new();
    TS.with(|t| f(&mut t.borrow_mut()))
}

fn guard_len(l: &Layout) -> usize {
    let g = std::cmp::max(4096, 4 * l.size());
    // multiple of 2*align so that payload alignment is controlled by the extra `align` below
    let a2 = 2 * l.align();
    (g + a2 - 1) / a2 * a2
}

fn new_block(l: &Layout, cap: usize, fence: u8) -> Option<Block> {
    let bytes = l.size().checked_mul(cap).expect("Track: capacity overflow");
    if bytes == 0 { return None; }
    // a user backend may panic when it cannot provide the memory (documented for MemResizable)
    if bytes > (1usize << 34) { let _w = WindowOff::new(); panic!("Track: out of memory ({bytes} bytes requested)"); }
    if fence != 0 && l.align() <= PAGE {
        // electric fence: the payload ends exactly at an inaccessible page (fence 1: overruns, reads included, fault at once)
        // or starts right after one (fence 2: underruns)
        let body = (bytes + PAGE - 1) / PAGE * PAGE;
        let map_len = body + PAGE;
        unsafe {
            let m = libc::mmap(std::ptr::null_mut(), map_len, libc::PROT_READ | libc::PROT_WRITE, libc::MAP_PRIVATE | libc::MAP_ANONYMOUS, -1, 0) as *mut u8;
            assert!(m as isize != -1, "mmap failed");
            let (base, payload, guard_page) = if fence == 1 { (m, m.add(body - bytes), m.add(body)) } else { (m.add(PAGE), m.add(PAGE), m) };
            std::ptr::write_bytes(base, GUARD, body);
            std::ptr::write_bytes(payload, POISON, bytes);
            libc::mprotect(guard_page as *mut libc::c_void, PAGE, libc::PROT_NONE);
            return Some(Block { base, total: body, alloc_align: 0, payload, payload_len: bytes, front: payload as usize - base as usize, map: Some((m as usize, map_len)), sealed: false });
        }
    }
    let g = guard_len(l);
    // payload is aligned to `align` but deliberately NOT to 2*align
    let front = g + l.align();
    let total = front + bytes + g;
    let alloc_align = 2 * l.align();
    unsafe {
        let base = System.alloc(Layout::from_size_align(total, alloc_align).unwrap());
        assert!(!base.is_null());
        std::ptr::write_bytes(base, GUARD, total);
        let payload = base.add(front);
        std::ptr::write_bytes(payload, POISON, bytes);
        Some(Block { base, total, alloc_align, payload, payload_len: bytes, front, map: None, sealed: false })
    }
}

fn guards_ok(b: &Block) -> bool {
    if b.sealed { return true; }
    unsafe {
        crate::elem::all_eq(b.base, b.front, GUARD)
            && crate::elem::all_eq(b.base.add(b.front + b.payload_len), b.total - b.front - b.payload_len, GUARD)
    }
}

fn free_block(b: Block) {
    if let Some((m, len)) = b.map { unsafe { libc::munmap(m as *mut libc::c_void, len); } return; }
    unsafe { System.dealloc(b.base, Layout::from_size_align(b.total, b.alloc_align).unwrap()); }
}

impl TrackState {
    fn retire(&mut self, serial: u32) {
        if let Some(pos) = self.live.iter().position(|(s, _)| *s == serial) {
            let (s, mut b) = self.live.swap_remove(pos);
            if !guards_ok(&b) { self.errs.push(format!("guard zone of block #{s} overwritten (out-of-bounds write)")); }
            if let Some((m, len)) = b.map {
                // released fenced block: no access at all until the end of the transition
                unsafe { libc::mprotect(m as *mut libc::c_void, len, libc::PROT_NONE); }
                b.sealed = true;
            } else {
                unsafe { std::ptr::write_bytes(b.payload, POISON, b.payload_len); }
            }
            self.quarantine.push((s, b));
        }
    }
    /// Scan live guards and quarantined blocks; free the quarantine. Returns (errors so far).
    pub fn scan(&mut self) {
        for (s, b) in &self.live {
            if !guards_ok(b) { self.errs.push(format!("guard zone of live block #{s} overwritten (out-of-bounds write)")); }
        }
        for (s, b) in self.quarantine.drain(..) {
            if !guards_ok(&b) { self.errs.push(format!("guard zone of released block #{s} overwritten")); }
            let dirty = !b.sealed && unsafe { !crate::elem::all_eq(b.payload, b.payload_len, POISON) };
            if dirty { self.errs.push(format!("released block #{s} written through a stale pointer")); }
            free_block(b);
        }
    }
    pub fn live_blocks(&self) -> usize { self.live.len() }
    /// no resize of storage #`serial` below `live` elements
    pub fn resize_below(&self, serial: u32, live: usize) -> Option<String> {
        for e in &self.events {
            let (s, new) = match e { TEv::Resize { serial, new, .. } | TEv::Expand { serial, new, .. } | TEv::ExpandExact { serial, new, .. } => (*serial, *new), _ => continue };
            if s == serial && new < live { return Some(format!("storage #{serial} resized to {new} elements while {live} elements were live")); }
        }
        None
    }
    /// Mem lifecycle: every Mem is built once with the expected element layout, nothing happens after its release
    pub fn lifecycle_errors(&self, size: usize, align: usize) -> Vec<String> {
        let mut errs = Vec::new();
        let mut dropped: Vec<u32> = Vec::new();
        for e in &self.events {
            match e {
                TEv::Build { serial, size: s, align: a, .. } => {
                    if (*s != size || *a != align) && !self.foreign_serials.contains(serial) { errs.push(format!("storage #{serial} requested with layout size={s} align={a}, element layout is size={size} align={align}")); }
                }
                TEv::Expand { serial, .. } | TEv::ExpandExact { serial, .. } | TEv::Resize { serial, .. } => {
                    if dropped.contains(serial) { errs.push(format!("storage #{serial} resized after it was released")); }
                }
                TEv::Drop { serial, .. } => {
                    if dropped.contains(serial) { errs.push(format!("storage #{serial} released twice")); }
                    dropped.push(*serial);
                }
            }
        }
        errs
    }
    pub fn next_serial(&self) -> u32 { self.next_serial }
    /// `as_mut_ptr` calls on storages built since serial `from`
    pub fn as_mut_since(&self, from: u32) -> u32 { self.as_mut_by_serial.iter().skip(from as usize).sum() }
    pub fn live_serials(&self) -> Vec<u32> { self.live.iter().map(|(s, _)| *s).collect() }
    /// forget everything (leaked blocks of faulted runs are freed here)
    pub fn reset(&mut self) {
        self.scan();
        for (_, b) in self.live.drain(..) { free_block(b); }
        self.events.clear();
        self.errs.clear();
        self.next_serial = 0;
        self.relocations = 0;
        self.foreign = false;
        self.foreign_serials.clear();
        self.as_mut_by_serial.clear();
        keys_reset();
    }
}

pub struct TrackMem {
    ptr: *mut u8,
    cap: usize,
    layout: Layout,
    pub serial: u32,
    fixed: bool,
    /// 0 = guard zones; 1 / 2 = electric fence after / before the payload (TrackFence)
    fence: u8,
    /// `expand` grows by exactly the requested amount (still "at least additional"): no slack for code that assumes doubling
    tight: bool,
    /// `expand` hands out 3 elements MORE than requested and never doubles (legal: "at least additional")
    pub greedy: bool,
}
// markers only matter for C15-style questions; the harness is single threaded per model
unsafe impl Send for TrackMem {}
unsafe impl Sync for TrackMem {}

impl TrackMem {
    fn build(layout: Layout, cap: usize, fixed: bool) -> Self { Self::build2(layout, cap, fixed, false) }
    fn build2(layout: Layout, cap: usize, fixed: bool, tight: bool) -> Self { Self::build3(layout, cap, fixed, tight, 0) }
    fn build3(layout: Layout, cap: usize, fixed: bool, tight: bool, fence: u8) -> Self {
        with_ts(|ts| {
            let serial = ts.next_serial;
            ts.next_serial += 1;
            ts.events.push(TEv::Build { serial, size: layout.size(), align: layout.align(), cap });
            if ts.foreign { ts.foreign_serials.push(serial); }
            let ptr = match new_block(&layout, cap, fence) {
                Some(b) => { let p = b.payload; ts.live.push((serial, b)); p }
                None => layout.align() as *mut u8,
            };
            TrackMem { ptr, cap, layout, serial, fixed, tight, fence, greedy: false }
        })
    }
    fn relocate(&mut self, new_cap: usize) {
        let layout = self.layout;
        let (serial, old_ptr, old_cap) = (self.serial, self.ptr, self.cap);
        let fence = self.fence;
        let new_ptr = with_ts(|ts| {
            ts.relocations += 1;
            let nb = new_block(&layout, new_cap, fence);
            let new_ptr = match &nb { Some(b) => b.payload, None => layout.align() as *mut u8 };
            let copy = std::cmp::min(old_cap, new_cap) * layout.size();
            if copy > 0 { unsafe { std::ptr::copy_nonoverlapping(old_ptr, new_ptr, copy); } }
            ts.retire(serial);
            if let Some(b) = nb { ts.live.push((serial, b)); }
            new_ptr
        });
        self.ptr = new_ptr;
        self.cap = new_cap;
    }
}

impl Mem for TrackMem {
    #[inline] fn as_ptr(&self) -> *const u8 { self.ptr }
    #[inline] fn as_mut_ptr(&mut self) -> *mut u8 {
        AS_MUT_CALLS.with(|c| c.set(c.get() + 1));
        let s = self.serial as usize;
        with_ts(|ts| { if ts.as_mut_by_serial.len() <= s { ts.as_mut_by_serial.resize(s + 1, 0); } ts.as_mut_by_serial[s] += 1; });
        self.ptr
    }
    #[inline] fn element_layout(&self) -> Layout { self.layout }
    #[inline] fn size(&self) -> usize { self.cap }
    fn expand(&mut self, additional: usize) {
        if self.fixed {
            let _w = WindowOff::new();
            panic!("TrackFixed: can't change capacity");
        }
        let old = self.cap;
        let requested = old.checked_add(additional).expect("Track: capacity overflow");
        let new = if self.greedy { requested.saturating_add(3) } else if self.tight { requested } else { std::cmp::max(old.saturating_mul(2), requested) };
        with_ts(|ts| ts.events.push(TEv::Expand { serial: self.serial, add: additional, old, new }));
        self.relocate(new);
    }
}
impl MemResizable for TrackMem {
    fn expand_exact(&mut self, additional: usize) {
        assert!(!self.fixed);
        let old = self.cap;
        let new = old.checked_add(additional).expect("Track: capacity overflow");
        with_ts(|ts| ts.events.push(TEv::ExpandExact { serial: self.serial, add: additional, old, new }));
        self.relocate(new);
    }
    fn resize(&mut self, new_size: usize) {
        assert!(!self.fixed);
        let old = self.cap;
        with_ts(|ts| ts.events.push(TEv::Resize { serial: self.serial, old, new: new_size }));
        // a benign resize(same) does not relocate (DESIGN.md audit: not an alarm)
        if new_size != old { self.relocate(new_size); }
    }
}
impl Drop for TrackMem {
    fn drop(&mut self) {
        with_ts(|ts| {
            ts.events.push(TEv::Drop { serial: self.serial, cap: self.cap });
            ts.retire(self.serial);
        });
    }
}

/// Resizable, relocating, instrumented backend.
#[derive(Clone, Copy, Default, Debug)]
pub struct Track;
impl MemBuilder for Track {
    type Mem = TrackMem;
    fn build(&mut self, element_layout: Layout) -> TrackMem { TrackMem::build(element_layout, 0, false) }
}
impl MemBuilderSizeable for Track {
    fn build_with_size(&mut self, element_layout: Layout, capacity: usize) -> TrackMem {
        TrackMem::build(element_layout, capacity, false)
    }
}

/// As `TrackTight`, but every block is mmap-ed with an inaccessible page right AFTER (FRONT = false) or BEFORE (FRONT = true)
/// the payload, and a released block is made inaccessible until the end of the transition: an out-of-bounds or stale
/// READ faults immediately (reported through the crash handler), not only a write.
#[derive(Clone, Copy, Default, Debug)]
pub struct TrackFence<const FRONT: bool>;
impl<const FRONT: bool> MemBuilder for TrackFence<FRONT> {
    type Mem = TrackMem;
    fn build(&mut self, element_layout: Layout) -> TrackMem { TrackMem::build3(element_layout, 0, false, true, if FRONT { 2 } else { 1 }) }
}
impl<const FRONT: bool> MemBuilderSizeable for TrackFence<FRONT> {
    fn build_with_size(&mut self, element_layout: Layout, capacity: usize) -> TrackMem { TrackMem::build3(element_layout, capacity, false, true, if FRONT { 2 } else { 1 }) }
}

/// As `Track`, but `expand(n)` grows by exactly n elements.
#[derive(Clone, Copy, Default, Debug)]
pub struct TrackTight;
impl MemBuilder for TrackTight {
    type Mem = TrackMem;
    fn build(&mut self, element_layout: Layout) -> TrackMem { TrackMem::build2(element_layout, 0, false, true) }
}
impl MemBuilderSizeable for TrackTight {
    fn build_with_size(&mut self, element_layout: Layout, capacity: usize) -> TrackMem { TrackMem::build2(element_layout, capacity, false, true) }
}

/// As `Track`, but a plainly built Mem (`MemBuilder::build`: `new_in`, `clone_empty*`, the prototype inside `clone`) is "warm": it
/// already has room for 3 elements. Legal for a user backend - nothing may assume that a fresh Mem has capacity 0.
#[derive(Clone, Copy, Default, Debug)]
pub struct TrackWarm;
pub const WARM: usize = 3;
impl MemBuilder for TrackWarm {
    type Mem = TrackMem;
    fn build(&mut self, element_layout: Layout) -> TrackMem { TrackMem::build(element_layout, WARM, false) }
}
impl MemBuilderSizeable for TrackWarm {
    fn build_with_size(&mut self, element_layout: Layout, capacity: usize) -> TrackMem { TrackMem::build(element_layout, capacity, false) }
}

/// As `TrackTight`, but `expand(n)` grows by n + 3 elements: more than asked for, yet not geometric.
#[derive(Clone, Copy, Default, Debug)]
pub struct TrackGreedy;
impl MemBuilder for TrackGreedy {
    type Mem = TrackMem;
    fn build(&mut self, element_layout: Layout) -> TrackMem { let mut m = TrackMem::build(element_layout, 0, false); m.greedy = true; m }
}
impl MemBuilderSizeable for TrackGreedy {
    fn build_with_size(&mut self, element_layout: Layout, capacity: usize) -> TrackMem { let mut m = TrackMem::build(element_layout, capacity, false); m.greedy = true; m }
}

// ---------------------------------------------------------------------------------------------------------------------------
// TrackKey: a user backend that exercises the rest of the storage traits. Its builder is STATEFUL (an identity; `Clone` makes a new
// identity, so a bitwise duplicate is recognisable), a plainly built Mem is warm (room for 3), the Mem supports raw parts with a
// Handle that is NOT a pointer (a ticket), and the Mem is only a KEY to its state: once `into_raw_parts` has consumed it, a stale
// bitwise copy of it reports size 0 and the layout of `()` (nothing may ask a consumed Mem).
#[derive(Default)]
pub struct KeyState { next_builder: u32, released: Vec<u32>, pub builder_of_serial: Vec<(u32, u32)> }
thread_local! { pub static KEYS: RefCell<KeyState> = RefCell::new(KeyState::default()); }
pub fn keys_reset() { KEYS.with(|k| *k.borrow_mut() = KeyState::default()); }
/// the identity of the builder that built storage `serial` (None: not a TrackKey storage)
pub fn builder_of(serial: u32) -> Option<u32> { KEYS.with(|k| k.borrow().builder_of_serial.iter().find(|(s, _)| *s == serial).map(|(_, b)| *b)) }
fn new_builder_id() -> u32 { let _w = WindowOff::new(); KEYS.with(|k| { let mut k = k.borrow_mut(); k.next_builder += 1; k.next_builder }) }

#[derive(Debug)]
pub struct TrackKey { pub id: u32 }
impl Default for TrackKey { fn default() -> Self { TrackKey { id: new_builder_id() } } }
impl Clone for TrackKey { fn clone(&self) -> Self { TrackKey { id: new_builder_id() } } }
pub struct TrackKeyMem { inner: TrackMem }
impl TrackKeyMem {
    fn new(builder: u32, layout: Layout, cap: usize) -> Self {
        let inner = TrackMem::build(layout, cap, false);
        let _w = WindowOff::new();
        KEYS.with(|k| k.borrow_mut().builder_of_serial.push((inner.serial, builder)));
        TrackKeyMem { inner }
    }
    fn released(&self) -> bool { let _w = WindowOff::new(); KEYS.with(|k| k.borrow().released.contains(&self.inner.serial)) }
}
impl MemBuilder for TrackKey {
    type Mem = TrackKeyMem;
    fn build(&mut self, element_layout: Layout) -> TrackKeyMem { TrackKeyMem::new(self.id, element_layout, WARM) }
}
impl MemBuilderSizeable for TrackKey {
    fn build_with_size(&mut self, element_layout: Layout, capacity: usize) -> TrackKeyMem { TrackKeyMem::new(self.id, element_layout, capacity) }
}
impl Mem for TrackKeyMem {
    #[inline] fn as_ptr(&self) -> *const u8 { self.inner.as_ptr() }
    #[inline] fn as_mut_ptr(&mut self) -> *mut u8 { self.inner.as_mut_ptr() }
    fn element_layout(&self) -> Layout { if self.released() { Layout::new::<()>() } else { self.inner.element_layout() } }
    fn size(&self) -> usize { if self.released() { 0 } else { self.inner.size() } }
    fn expand(&mut self, additional: usize) { self.inner.expand(additional) }
}
impl MemResizable for TrackKeyMem {
    fn expand_exact(&mut self, additional: usize) { self.inner.expand_exact(additional) }
    fn resize(&mut self, new_size: usize) { self.inner.resize(new_size) }
}
/// not a pointer: the storage's serial plus what is needed to pick it up again
#[derive(Clone, Debug)]
pub struct KeyTicket { serial: u32, ptr: usize, fence: u8 }
impl any_vec::mem::MemRawParts for TrackKeyMem {
    type Handle = KeyTicket;
    fn into_raw_parts(self) -> (KeyTicket, Layout, usize) {
        let (layout, size) = (self.inner.layout, self.inner.cap);
        let t = KeyTicket { serial: self.inner.serial, ptr: self.inner.ptr as usize, fence: self.inner.fence };
        { let _w = WindowOff::new(); KEYS.with(|k| k.borrow_mut().released.push(t.serial)); }
        std::mem::forget(self); // no Drop event: the storage lives on behind the ticket
        (t, layout, size)
    }
    unsafe fn from_raw_parts(handle: KeyTicket, element_layout: Layout, size: usize) -> Self {
        { let _w = WindowOff::new(); KEYS.with(|k| k.borrow_mut().released.retain(|s| *s != handle.serial)); }
        TrackKeyMem { inner: TrackMem { ptr: handle.ptr as *mut u8, cap: size, layout: element_layout, serial: handle.serial, fixed: false, fence: handle.fence, tight: false, greedy: false } }
    }
}

/// Fixed-capacity (N elements), instrumented backend: `TrackFixedMem` is deliberately a distinct type that
/// does NOT implement `MemResizable`.
#[derive(Clone, Copy, Default, Debug)]
pub struct TrackFixed<const N: usize>;
pub struct TrackFixedMem(TrackMem);
impl<const N: usize> MemBuilder for TrackFixed<N> {
    type Mem = TrackFixedMem;
    fn build(&mut self, element_layout: Layout) -> TrackFixedMem { TrackFixedMem(TrackMem::build(element_layout, N, true)) }
}
impl Mem for TrackFixedMem {
    #[inline] fn as_ptr(&self) -> *const u8 { self.0.as_ptr() }
    #[inline] fn as_mut_ptr(&mut self) -> *mut u8 { self.0.as_mut_ptr() }
    #[inline] fn element_layout(&self) -> Layout { self.0.element_layout() }
    #[inline] fn size(&self) -> usize { self.0.size() }
    // `expand` left at the trait default (panics): that is the interface contract for fixed capacity.
}
