//! Generic edge executor: builds the REAL `AnyVec` for an abstract state, runs one operation instance on it and
//! on the reference model (`Vec<Mv>` + identity registry), and evaluates the oracles (DESIGN.md §3.4–3.6).

use std::any::TypeId;
use std::marker::PhantomData;
use std::mem::{size_of, ManuallyDrop};
use std::panic::{catch_unwind, AssertUnwindSafe};
use std::ptr::NonNull;

use any_vec::any_value::{AnyValue, AnyValueMut, AnyValueRaw, AnyValueSizeless, AnyValueSizelessMut, AnyValueSizelessRaw, AnyValueTypeless, AnyValueTypelessRaw, AnyValueWrapper};
use any_vec::mem::MemBuilder;
use any_vec::{AnyVec, SatisfyTraits};

use crate::caps::{Consumer, TrX, BK, MX};
use crate::elem::{self, Elem, IdState, InjectedFault};
use crate::galloc;
use crate::track;
use crate::types::*;

#[derive(Debug)]
pub enum Caught { Injected, Panic(String) }

/// Run library code: inside the allocator/user-call window and under catch_unwind.
pub fn guarded<R>(f: impl FnOnce() -> R) -> Result<R, Caught> {
    match catch_unwind(AssertUnwindSafe(|| elem::lib(f))) {
        Ok(r) => Ok(r),
        Err(p) => {
            if p.is::<InjectedFault>() { Err(Caught::Injected) }
            else if let Some(s) = p.downcast_ref::<&str>() { Err(Caught::Panic(s.to_string())) }
            else if let Some(s) = p.downcast_ref::<String>() { Err(Caught::Panic(s.clone())) }
            else { Err(Caught::Panic("<non-string panic>".into())) }
        }
    }
}

#[derive(Default)]
pub struct Out {
    pub fails: Vec<Fail>,
    /// an injected fault fired: predictions are void, only invariants are checked
    pub faulted: bool,
    /// outcome class (for the vacuity counters)
    pub outcome: String,
    /// successor (len, cap) as read back from the real vector
    pub next: Option<(usize, usize)>,
    pub user_calls: u32,
    /// element leaks are permitted (forget families, C07)
    pub leak_ok: bool,
}
impl Out {
    pub fn fail(&mut self, class: Class, kind: &'static str, detail: String) { self.fails.push(Fail { class, kind, detail }); }
    fn oc(&mut self, s: &str) { if !self.outcome.is_empty() { self.outcome.push('+'); } self.outcome.push_str(s); }
}

pub type Snap = Vec<(u16, bool)>;

pub fn snap<T: Elem, Tr: ?Sized + TrX, M: MemBuilder>(v: &AnyVec<Tr, M>) -> Snap {
    match v.downcast_ref::<T>() {
        Some(t) => t.as_slice().iter().map(|e| (e.id(), e.intact())).collect(),
        None => vec![(u16::MAX, false)],
    }
}

/// does real id `r` match the model value?
pub fn mv_match(m: Mv, r: u16) -> bool {
    match m { Mv::Id(x) => x == r, Mv::CloneOf(p) => elem::parent_of(r) == Some(p) }
}

pub fn snap_matches<T: Elem>(s: &Snap, m: &[Mv]) -> bool {
    if s.len() != m.len() { return false; }
    if T::SIZE == 0 { return true; }
    s.iter().zip(m).all(|((id, ok), mv)| *ok && mv_match(*mv, *id))
}

fn fmt_snap(s: &Snap) -> String {
    let v: Vec<String> = s.iter().map(|(id, ok)| if *ok { format!("{id}") } else { format!("{id}!") }).collect();
    format!("[{}]", v.join(","))
}
fn fmt_model(m: &[Mv]) -> String {
    let v: Vec<String> = m.iter().map(|x| match x { Mv::Id(i) => format!("{i}"), Mv::CloneOf(p) => format!("clone({p})") }).collect();
    format!("[{}]", v.join(","))
}

pub struct World<T: Elem + SatisfyTraits<Tr>, M: MX, Tr: TrX + ?Sized> {
    pub a: AnyVec<Tr, M>,
    pub ma: Vec<Mv>,
    pub b: Option<AnyVec<Tr, M::Aux>>,
    pub mb: Vec<Mv>,
    _t: PhantomData<T>,
}

/// one consumer for push / insert(i)
struct AtC(Option<usize>);
impl<Tr: ?Sized + any_vec::traits::Trait, M: MemBuilder> Consumer<Tr, M> for AtC {
    #[inline]
    fn take<V: AnyValue>(self, a: &mut AnyVec<Tr, M>, v: V) { match self.0 { None => a.push(v), Some(i) => a.insert(i, v) } }
}

pub const B_LEN: usize = 3;

impl<T: Elem + SatisfyTraits<Tr>, M: MX, Tr: TrX + ?Sized> World<T, M, Tr> {
    /// Canonical construction of state `st` using only the trusted kernel (typed push/pop, with_capacity_in/new_in).
    pub fn build(st: &St, need_b: bool) -> Result<Self, String> {
        let len = st.len as usize;
        let cap = st.cap as usize;
        let mut a: AnyVec<Tr, M> = match guarded(|| if M::SIZEABLE { M::with_capacity::<T, Tr>(cap) } else if st.spare == Spare::Pristine { M::new_default::<T, Tr>() } else { AnyVec::<Tr, M>::new_in::<T>(M::make()) }) {
            Ok(a) => a,
            Err(e) => return Err(format!("construction panicked: {e:?}")),
        };
        if T::SIZE != 0 && a.capacity() != cap { return Err(format!("{}constructed capacity {} != expected {}", if M::RESIZABLE { "" } else { "FIXED-CAPACITY: " }, a.capacity(), cap)); }
        if T::SIZE == 0 && M::KIND == BK::Stack && a.capacity() < 1 << 32 { return Err(format!("FIXED-CAPACITY: Stack capacity for a zero-sized element is {} (must be unbounded)", a.capacity())); }
        let mut ma = Vec::with_capacity(len + 4);
        let fill = match st.spare { Spare::Pristine => len, _ => if T::SIZE == 0 { len } else { cap } };
        {
            let mut t = a.downcast_mut::<T>().ok_or("downcast_mut failed on fresh vector")?;
            for _ in 0..fill { let v = T::fresh(); ma.push(Mv::Id(v.id())); t.push(v); }
            while t.len() > len { let v = t.pop(); ma.pop(); drop(v); }
            if st.spare == Spare::Scrub && T::SIZE != 0 {
                let n = t.capacity() - t.len();
                unsafe { std::ptr::write_bytes((t.as_mut_ptr().add(t.len())) as *mut u8, elem::POISON, n * T::SIZE); }
            }
        }
        if T::SIZE != 0 && a.capacity() != cap { return Err(format!("capacity changed during construction: {} != {}", a.capacity(), cap)); }
        let (b, mb) = if need_b {
            // pre-reserved, so that operations on B never allocate during the edge
            let mut b: AnyVec<Tr, M::Aux> = elem::lib(|| if <M::Aux as MX>::SIZEABLE { <M::Aux as MX>::with_capacity::<T, Tr>(16) } else { AnyVec::<Tr, M::Aux>::new_in::<T>(<M::Aux as MX>::make()) });
            let mut mb = Vec::with_capacity(16); // harness allocations stay outside the library window
            {
                let mut t = b.downcast_mut::<T>().unwrap();
                elem::lib(|| for _ in 0..B_LEN { let v = T::fresh(); mb.push(Mv::Id(v.id())); t.push(v); });
            }
            (Some(b), mb)
        } else { (None, Vec::new()) };
        let w = World { a, ma, b, mb, _t: PhantomData };
        let s = snap::<T, Tr, M>(&w.a);
        if !snap_matches::<T>(&s, &w.ma) { return Err(format!("constructed contents {} != model {}", fmt_snap(&s), fmt_model(&w.ma))); }
        Ok(w)
    }

    fn id_of(m: Mv) -> u16 { match m { Mv::Id(i) => i, Mv::CloneOf(p) => p } }

    /// Supply a value from `src` to A at `at` (None = push). Returns the library result and the model value.
    /// The model of B is updated here; the caller updates the model of A.
    fn feed(&mut self, api: Api, src: Src, at: Option<usize>) -> (Result<(), Caught>, Mv) {
        let a = &mut self.a;
        if api == Api::Typed {
            let v = T::fresh();
            let id = v.id();
            let r = guarded(|| { let mut t = if at.map_or(false, |i| i % 2 == 1) { unsafe { a.downcast_mut_unchecked::<T>() } } else { a.downcast_mut::<T>().unwrap() }; match at { None => t.push(v), Some(i) => t.insert(i, v) } });
            return (r, Mv::Id(id));
        }
        match src {
            Src::W => {
                let v = T::fresh();
                let id = v.id();
                let r = guarded(|| AtC(at).take(a, AnyValueWrapper::new(v)));
                (r, Mv::Id(id))
            }
            Src::R | Src::UT | Src::US => {
                let mut v = ManuallyDrop::new(T::fresh());
                let id = v.id();
                let ptr = NonNull::from(&mut *v).cast::<u8>();
                let r = guarded(|| unsafe {
                    match src {
                        Src::R => AtC(at).take(a, AnyValueRaw::new(ptr, size_of::<T>(), TypeId::of::<T>())),
                        Src::UT => { let x = AnyValueTypelessRaw::new(ptr, size_of::<T>()); match at { None => a.push_unchecked(x), Some(i) => a.insert_unchecked(i, x) } }
                        _ => { let x = AnyValueSizelessRaw::new(ptr); match at { None => a.push_unchecked(x), Some(i) => a.insert_unchecked(i, x) } }
                    }
                });
                if r.is_err() { unsafe { ManuallyDrop::drop(&mut v); } }
                (r, Mv::Id(id))
            }
            Src::BPop => {
                let b = self.b.as_mut().unwrap();
                let x = self.mb.pop().unwrap();
                (guarded(|| { let h = b.pop().unwrap(); AtC(at).take(a, h) }), x)
            }
            Src::BRemove(j) => {
                let b = self.b.as_mut().unwrap();
                let x = self.mb.remove(j as usize);
                (guarded(|| { let h = b.remove(j as usize); AtC(at).take(a, h) }), x)
            }
            Src::BSwapRemove(j) => {
                let b = self.b.as_mut().unwrap();
                let x = self.mb.swap_remove(j as usize);
                (guarded(|| { let h = b.swap_remove(j as usize); AtC(at).take(a, h) }), x)
            }
            Src::BDrainF | Src::BDrainB => {
                let b = self.b.as_mut().unwrap();
                let x = if src == Src::BDrainF { self.mb[0] } else { self.mb[1] };
                self.mb.drain(0..2);
                (guarded(|| {
                    let mut d = b.drain(0..2);
                    let e = if src == Src::BDrainF { d.next().unwrap() } else { d.next_back().unwrap() };
                    AtC(at).take(a, e);
                    drop(d);
                }), x)
            }
            Src::LzRef(j, d) => {
                let b = self.b.as_mut().unwrap();
                let p = Self::id_of(self.mb[j as usize]);
                (guarded(|| { let e = b.at(j as usize); Tr::lz_element(&*e, d, a, AtC(at)) }), Mv::CloneOf(p))
            }
            Src::LzMut(j, d) => {
                let b = self.b.as_mut().unwrap();
                let p = Self::id_of(self.mb[j as usize]);
                (guarded(|| { let e = b.at_mut(j as usize); Tr::lz_element(&*e, d, a, AtC(at)) }), Mv::CloneOf(p))
            }
            Src::LzPop(d) => {
                let b = self.b.as_mut().unwrap();
                let p = Self::id_of(self.mb.pop().unwrap());
                (guarded(|| { let h = b.pop().unwrap(); Tr::lz_pop(&h, d, a, AtC(at)); drop(h) }), Mv::CloneOf(p))
            }
            Src::LzRemove(j, d) => {
                let b = self.b.as_mut().unwrap();
                let p = Self::id_of(self.mb.remove(j as usize));
                (guarded(|| { let h = b.remove(j as usize); Tr::lz_remove(&h, d, a, AtC(at)); drop(h) }), Mv::CloneOf(p))
            }
            Src::LzSwapRemove(j, d) => {
                let b = self.b.as_mut().unwrap();
                let p = Self::id_of(self.mb.swap_remove(j as usize));
                (guarded(|| { let h = b.swap_remove(j as usize); Tr::lz_swap_remove(&h, d, a, AtC(at)); drop(h) }), Mv::CloneOf(p))
            }
            Src::LzDrained(d) => {
                let b = self.b.as_mut().unwrap();
                let p = Self::id_of(self.mb.remove(0));
                (guarded(|| { let mut dr = b.drain(0..1); let e = dr.next().unwrap(); Tr::lz_element(&e, d, a, AtC(at)); drop(e); drop(dr) }), Mv::CloneOf(p))
            }
        }
    }

    pub fn do_push_insert(&mut self, api: Api, src: Src, at: Option<usize>, out: &mut Out) {
        let len = self.ma.len();
        let cap = self.a.capacity();
        let oob = matches!(at, Some(i) if i > len);
        let full = !M::RESIZABLE && len >= cap;
        let (r, mv) = self.feed(api, src, at);
        match r {
            Err(Caught::Injected) => { out.faulted = true; }
            Err(Caught::Panic(msg)) => {
                if oob || full { out.oc(if oob { "panic-oob" } else { "panic-full" }); }
                else { out.fail(Class::Vec, "unexpected-panic", format!("panicked: {msg}")); }
            }
            Ok(()) => {
                if oob { out.fail(Class::Vec, "missing-panic", format!("insert at {} > len {} did not panic", at.unwrap(), len)); }
                else if full { out.fail(Class::Cap, "missing-panic-full", format!("push/insert on full fixed-capacity vector (len {len}, cap {cap}) did not panic")); }
                match at { None => self.ma.push(mv), Some(i) => { let i = i.min(self.ma.len()); self.ma.insert(i, mv) } }
                out.oc("ok");
            }
        }
    }

    /// Apply `sink` to a removed / yielded value. Returns the id observed (if the sink observes one).
    /// B's model is updated by the caller through `sink_model`.
    fn sink_value<V: AnyValueMut>(h: V, sink: Sink, b: Option<&mut AnyVec<Tr, M::Aux>>, fails: &mut Vec<Fail>) -> Option<u16> {
        if h.value_typeid() != TypeId::of::<T>() { fails.push(Fail { class: Class::Type, kind: "handle-typeid", detail: "handle reports a wrong value_typeid".into() }); }
        if h.size() != size_of::<T>() { fails.push(Fail { class: Class::Type, kind: "handle-size", detail: format!("handle reports size {} for a {}-byte element", h.size(), size_of::<T>()) }); }
        match sink {
            Sink::Drop => { drop(h); None }
            Sink::Downcast => { let v: T = h.downcast::<T>().expect("downcast to the real type failed"); let id = v.id(); let _w = elem::WindowOff::new(); drop(v); Some(id) }
            Sink::DowncastRef => { let id = h.downcast_ref::<T>().expect("downcast_ref to the real type failed").id(); drop(h); Some(id) }
            Sink::DowncastUnchecked => { let v: T = unsafe { h.downcast_unchecked::<T>() }; let id = v.id(); let _w = elem::WindowOff::new(); drop(v); Some(id) }
            Sink::MutMoveB => {
                let mut h = h;
                let id = { let t = h.downcast_mut::<T>().expect("downcast_mut to the real type failed"); let _w = elem::WindowOff::new(); t.retag(); t.id() };
                b.unwrap().push(h);
                Some(id)
            }
            Sink::PushB => { b.unwrap().push(h); None }
            Sink::InsertB0 => { b.unwrap().insert(0, h); None }
            Sink::SwapW => {
                let mut h = h;
                let mut wv = AnyValueWrapper::new({ let _w = elem::WindowOff::new(); T::fresh() });
                h.swap(&mut wv);
                drop(h);
                let old: T = wv.downcast::<T>().unwrap();
                let id = old.id();
                let _w = elem::WindowOff::new();
                drop(old);
                Some(id)
            }
            Sink::SwapRaw => {
                let mut h = h;
                let mut tmp = ManuallyDrop::new({ let _w = elem::WindowOff::new(); T::fresh() });
                let mut raw = unsafe { AnyValueRaw::new(NonNull::from(&mut *tmp).cast::<u8>(), size_of::<T>(), TypeId::of::<T>()) };
                h.swap(&mut raw);
                drop(h);
                let id = tmp.id();
                let _w = elem::WindowOff::new();
                unsafe { ManuallyDrop::drop(&mut tmp); }
                Some(id)
            }
            Sink::LazyB(_) => unreachable!("lazy sink is dispatched by the caller"),
            Sink::Forget => { std::mem::forget(h); None }
        }
    }

    /// model-side effect of a sink on B; returns what the observed id must equal (if any)
    fn sink_model(mb: &mut Vec<Mv>, x: Mv, sink: Sink, seen: Option<u16>) {
        match sink {
            Sink::MutMoveB => mb.push(Mv::Id(seen.unwrap_or(u16::MAX))),
            Sink::PushB => mb.push(x),
            Sink::InsertB0 => mb.insert(0, x),
            Sink::LazyB(k) => { let p = Self::id_of(x); for _ in 0..k { mb.push(Mv::CloneOf(p)); } }
            _ => {}
        }
    }

    fn check_seen(x: Mv, sink: Sink, seen: Option<u16>, out: &mut Out) {
        if T::SIZE == 0 { return; }
        match sink {
            Sink::Downcast | Sink::DowncastRef | Sink::DowncastUnchecked | Sink::SwapW | Sink::SwapRaw => {
                match seen {
                    Some(id) if mv_match(x, id) => {}
                    _ => out.fail(Class::Vec, "wrong-value", format!("removed value observed as {seen:?}, model says {x:?}")),
                }
            }
            _ => {}
        }
    }

    pub fn do_remove_like(&mut self, api: Api, which: u8, idx: usize, sink: Sink, out: &mut Out) {
        // which: 0 = pop, 1 = remove(idx), 2 = swap_remove(idx)
        let len = self.ma.len();
        let World { a, b, ma, mb, .. } = self;
        let expect_none = which == 0 && len == 0;
        let expect_panic = which != 0 && idx >= len;
        let mut sfails = Vec::new();
        let r: Result<Option<Option<u16>>, Caught> = match api {
            Api::Typed => guarded(|| {
                let mut t = if idx % 2 == 1 { unsafe { a.downcast_mut_unchecked::<T>() } } else { a.downcast_mut::<T>().unwrap() };
                let v = match which { 0 => t.pop(), 1 => Some(t.remove(idx)), _ => Some(t.swap_remove(idx)) };
                v.map(|v| { let id = v.id(); let _w = elem::WindowOff::new(); drop(v); Some(id) })
            }),
            Api::Erased => {
                let bb = b.as_mut();
                let sf = &mut sfails;
                guarded(move || match which {
                    0 => match a.pop() {
                        None => None,
                        Some(h) => Some(if let Sink::LazyB(k) = sink { let b = bb.unwrap(); for _ in 0..k { Tr::lz_pop(&h, 1, b, crate::caps::PushC); } drop(h); None } else { Self::sink_value(h, sink, bb, sf) }),
                    },
                    1 => { let h = a.remove(idx); Some(if let Sink::LazyB(k) = sink { let b = bb.unwrap(); for _ in 0..k { Tr::lz_remove(&h, 1, b, crate::caps::PushC); } drop(h); None } else { Self::sink_value(h, sink, bb, sf) }) }
                    _ => { let h = a.swap_remove(idx); Some(if let Sink::LazyB(k) = sink { let b = bb.unwrap(); for _ in 0..k { Tr::lz_swap_remove(&h, 1, b, crate::caps::PushC); } drop(h); None } else { Self::sink_value(h, sink, bb, sf) }) }
                })
            }
        };
        out.fails.append(&mut sfails);
        match r {
            Err(Caught::Injected) => { out.faulted = true; }
            Err(Caught::Panic(msg)) => {
                if expect_panic { out.oc("panic-oob"); } else { out.fail(Class::Vec, "unexpected-panic", format!("panicked: {msg}")); }
            }
            Ok(None) => {
                if expect_none { out.oc("none"); } else { out.fail(Class::Vec, "unexpected-none", format!("pop returned None on len {len}")); }
            }
            Ok(Some(seen)) => {
                if expect_panic { out.fail(Class::Vec, "missing-panic", format!("index {idx} >= len {len} did not panic")); return; }
                if expect_none { out.fail(Class::Vec, "unexpected-some", "pop returned Some on an empty vector".into()); return; }
                let x = match which { 0 => ma.pop().unwrap(), 1 => ma.remove(idx), _ => ma.swap_remove(idx) };
                let eff_sink = if api == Api::Typed { Sink::Downcast } else { sink };
                Self::check_seen(x, eff_sink, seen, out);
                if api == Api::Erased { Self::sink_model(mb, x, sink, seen); }
                out.oc("ok");
            }
        }
    }

    pub fn do_clear(&mut self, api: Api, out: &mut Out) {
        let a = &mut self.a;
        let r = guarded(|| match api { Api::Erased => a.clear(), Api::Typed => a.downcast_mut::<T>().unwrap().clear() });
        match r {
            Err(Caught::Injected) => out.faulted = true,
            Err(Caught::Panic(m)) => out.fail(Class::Vec, "unexpected-panic", format!("clear panicked: {m}")),
            Ok(()) => { self.ma.clear(); out.oc("ok"); }
        }
    }

    pub fn do_get(&mut self, api: Api, kind: GetKind, idx: usize, out: &mut Out) {
        let len = self.ma.len();
        let a = &mut self.a;
        let mut rep: Vec<Fail> = Vec::new();
        let reports = |tid: TypeId, size: usize, bytes_id: u16, id: u16, rep: &mut Vec<Fail>| {
            if tid != TypeId::of::<T>() { rep.push(Fail { class: Class::Type, kind: "handle-typeid", detail: "element handle reports a wrong value_typeid".into() }); }
            if size != size_of::<T>() { rep.push(Fail { class: Class::Type, kind: "handle-size", detail: format!("element handle reports size {size}") }); }
            if T::SIZE != 0 && bytes_id != id { rep.push(Fail { class: Class::Vec, kind: "handle-bytes", detail: format!("as_bytes shows id {bytes_id}, downcast_ref shows {id}") }); }
        };
        let rp = &mut rep;
        const OOB: u16 = u16::MAX - 1;
        let ok = idx < len; // never dereference a handle the vector should not have produced
        let r: Result<Option<u16>, Caught> = guarded(move || match (api, kind) {
            (Api::Erased, GetKind::Get) => a.get(idx).map(|e| { if !ok { return OOB; } let id = e.downcast_ref::<T>().unwrap().id(); reports(e.value_typeid(), e.size(), elem::id_of_bytes(e.as_bytes()), id, rp); id }),
            (Api::Erased, GetKind::At) => { let e = a.at(idx); if !ok { return Some(OOB); } let id = e.downcast_ref::<T>().unwrap().id(); reports(e.value_typeid(), e.size(), elem::id_of_bytes(e.as_bytes()), id, rp); Some(id) }
            (Api::Erased, GetKind::GetMut) => a.get_mut(idx).map(|mut e| { if !ok { return OOB; } let id = e.downcast_mut::<T>().unwrap().id(); reports(e.value_typeid(), e.size(), elem::id_of_bytes(e.as_bytes()), id, rp); id }),
            (Api::Erased, GetKind::AtMut) => { let mut e = a.at_mut(idx); if !ok { return Some(OOB); } let id = e.downcast_mut::<T>().unwrap().id(); reports(e.value_typeid(), e.size(), elem::id_of_bytes(e.as_bytes()), id, rp); Some(id) }
            (Api::Erased, GetKind::GetUncheckedInRange) => { if idx < a.len() && ok { if idx % 2 == 0 { let e = unsafe { a.get_unchecked(idx) }; Some(unsafe { e.downcast_ref_unchecked::<T>() }.id()) } else { let mut e = unsafe { a.get_unchecked_mut(idx) }; Some(unsafe { e.downcast_mut_unchecked::<T>() }.id()) } } else { None } }
            (Api::Erased, GetKind::Index) => { let e = a.at(idx); if !ok { return Some(OOB); } let p = e.as_bytes_ptr(); if p != e.as_bytes().as_ptr() { rp.push(Fail { class: Class::Vec, kind: "handle-bytes", detail: "as_bytes_ptr() differs from as_bytes().as_ptr()".into() }); return Some(e.downcast_ref::<T>().unwrap().id()); }
                Some(if T::SIZE == 0 { e.downcast_ref::<T>().unwrap().id() } else { elem::id_of_bytes(unsafe { std::slice::from_raw_parts(p, size_of::<T>()) }) }) }
            (Api::Erased, GetKind::IndexMut) => { let mut e = a.at_mut(idx); if !ok { return Some(OOB); } let p = e.as_bytes_mut_ptr(); if p as *const u8 != e.as_bytes().as_ptr() { rp.push(Fail { class: Class::Vec, kind: "handle-bytes", detail: "as_bytes_mut_ptr() differs from as_bytes().as_ptr()".into() }); return Some(e.downcast_ref::<T>().unwrap().id()); }
                Some(if T::SIZE == 0 { e.downcast_ref::<T>().unwrap().id() } else { elem::id_of_bytes(unsafe { std::slice::from_raw_parts(p, size_of::<T>()) }) }) }
            (Api::Typed, GetKind::Index) => { let t = a.downcast_ref::<T>().unwrap(); let x = &t.as_slice()[idx]; Some(if ok { x.id() } else { OOB }) }
            (Api::Typed, GetKind::IndexMut) => { let mut t = a.downcast_mut::<T>().unwrap(); let x = &mut t.as_mut_slice()[idx]; Some(if ok { x.id() } else { OOB }) }
            (Api::Typed, GetKind::Get) => a.downcast_ref::<T>().unwrap().get(idx).map(|t| if ok { t.id() } else { OOB }),
            (Api::Typed, GetKind::At) => { let t = a.downcast_ref::<T>().unwrap().at(idx); Some(if ok { t.id() } else { OOB }) }
            (Api::Typed, GetKind::GetMut) => a.downcast_mut::<T>().unwrap().get_mut(idx).map(|t| if ok { t.id() } else { OOB }),
            (Api::Typed, GetKind::AtMut) => { let t = a.downcast_mut::<T>().unwrap().at_mut(idx); Some(if ok { t.id() } else { OOB }) }
            (Api::Typed, GetKind::GetUncheckedInRange) => { if idx % 2 == 0 { let t = unsafe { a.downcast_ref_unchecked::<T>() }; if idx < t.len() && ok { Some(unsafe { t.get_unchecked(idx) }.id()) } else { None } } else { let mut t = a.downcast_mut::<T>().unwrap(); if idx < t.len() && ok { Some(unsafe { t.get_unchecked_mut(idx) }.id()) } else { None } } }
        });
        out.fails.append(&mut rep);
        let panics = matches!(kind, GetKind::At | GetKind::AtMut | GetKind::Index | GetKind::IndexMut);
        match r {
            Err(Caught::Injected) => out.faulted = true,
            Err(Caught::Panic(m)) => if panics && idx >= len { out.oc("panic-oob") } else { out.fail(Class::Vec, "unexpected-panic", format!("get/at({idx}) on len {len} panicked: {m}")) },
            Ok(None) => if idx >= len && !panics { out.oc("none") } else { out.fail(Class::Vec, "unexpected-none", format!("get({idx}) on len {len} returned None")) },
            Ok(Some(id)) => {
                if idx >= len { out.fail(Class::Vec, "oob-access", format!("{kind:?}({idx}) on len {len} returned an element (id {id})")); }
                else if T::SIZE != 0 && !mv_match(self.ma[idx], id) { out.fail(Class::Vec, "wrong-element", format!("{kind:?}({idx}) refers to id {id}, model {:?}", self.ma[idx])); }
                else { out.oc("ok"); }
            }
        }
    }

    pub fn do_iter_all(&mut self, api: Api, kind: IterKind, out: &mut Out) {
        let a = &mut self.a;
        let mut ids: Vec<u16> = Vec::with_capacity(self.ma.len() + 8); // pre-reserved: no harness allocation inside the window
        let idr = &mut ids;
        let r: Result<usize, Caught> = guarded(move || match (api, kind) {
            (Api::Erased, IterKind::Iter) => { let it = a.iter(); let n = it.len(); idr.extend(it.map(|e| e.downcast_ref::<T>().unwrap().id())); n }
            (Api::Erased, IterKind::IterMut) => { let it = a.iter_mut(); let n = it.len(); idr.extend(it.map(|mut e| e.downcast_mut::<T>().unwrap().id())); n }
            (Api::Erased, IterKind::IntoIterRef) => { let it = (&*a).into_iter(); let n = it.len(); idr.extend(it.map(|e| e.downcast_ref::<T>().unwrap().id())); n }
            (Api::Erased, IterKind::IntoIterMut) => { let it = (&mut *a).into_iter(); let n = it.len(); idr.extend(it.map(|mut e| e.downcast_mut::<T>().unwrap().id())); n }
            (Api::Typed, IterKind::Iter) => { let it = a.downcast_ref::<T>().unwrap().iter(); let n = it.len(); idr.extend(it.map(|e| e.id())); n }
            (Api::Typed, IterKind::IterMut) => { let it = a.downcast_mut::<T>().unwrap().iter_mut(); let n = it.len(); idr.extend(it.map(|e| e.id())); n }
            (Api::Typed, IterKind::IntoIterRef) => { let it = a.downcast_ref::<T>().unwrap().into_iter(); let n = it.len(); idr.extend(it.map(|e| e.id())); n }
            (Api::Typed, IterKind::IntoIterMut) => { let it = a.downcast_mut::<T>().unwrap().into_iter(); let n = it.len(); idr.extend(it.map(|e| e.id())); n }
        });
        let r = r.map(|n| (n, ids));
        match r {
            Err(Caught::Injected) => out.faulted = true,
            Err(Caught::Panic(m)) => out.fail(Class::Vec, "unexpected-panic", format!("iteration panicked: {m}")),
            Ok((n, ids)) => {
                if n != self.ma.len() || ids.len() != self.ma.len() { out.fail(Class::Vec, "iter-len", format!("iterator len {n}, yielded {}, model len {}", ids.len(), self.ma.len())); }
                else if T::SIZE != 0 && !ids.iter().zip(&self.ma).all(|(i, m)| mv_match(*m, *i)) { out.fail(Class::Vec, "iter-seq", format!("iterator yielded {ids:?}, model {}", fmt_model(&self.ma))); }
                else { out.oc("ok"); }
            }
        }
    }

    /// replace "clone of p" placeholders in the models by the real ids (only where the snapshot agrees with the model)
    pub fn pin_models(&mut self) {
        if T::SIZE == 0 { return; }
        let sa = snap::<T, Tr, M>(&self.a);
        if snap_matches::<T>(&sa, &self.ma) { for (m, s) in self.ma.iter_mut().zip(&sa) { *m = Mv::Id(s.0); } }
        if let Some(b) = &self.b { let sb = snap::<T, Tr, M::Aux>(b); if snap_matches::<T>(&sb, &self.mb) { for (m, s) in self.mb.iter_mut().zip(&sb) { *m = Mv::Id(s.0); } } }
    }

    /// run one edge on this world (model updated alongside)
    pub fn apply(&mut self, e: &Edge, out: &mut Out) {
        // operations that only read (shared accessors, shared iteration, reports) never need the backend's WRITE pointer
        let read_only = matches!(M::KIND, BK::Track) && matches!(e,
            Edge::Get(_, GetKind::Get | GetKind::At | GetKind::Index, _) | Edge::IterAll(_, IterKind::Iter | IterKind::IntoIterRef) | Edge::TypeReports(0) | Edge::Bytes { variant: 0, .. });
        let w0 = track::AS_MUT_CALLS.with(|c| c.get());
        self.apply_inner(e, out);
        if read_only {
            let n = track::AS_MUT_CALLS.with(|c| c.get()) - w0;
            if n != 0 { out.fail(Class::Mem, "write-accessor-on-read", format!("a read-only operation called Mem::as_mut_ptr {n} time(s): a shared borrow of the vector asked its backend for write access")); }
        }
    }

    fn apply_inner(&mut self, e: &Edge, out: &mut Out) {
        if !matches!(e, Edge::History { .. }) && self.ma.iter().chain(self.mb.iter()).any(|m| matches!(m, Mv::CloneOf(_))) { self.pin_models(); }
        match *e {
            Edge::History { a, b, c, d } => {
                // a real history on ONE vector: no reconstruction between the steps (unmerged cross-check, DESIGN.md 3.4 item 3)
                for (k, code) in [a, b, c, d].into_iter().enumerate() {
                    if code == u8::MAX { continue; }
                    let step = crate::edges::history_alphabet(Tr::CLONEABLE, M::RESIZABLE)[code as usize];
                    let before = out.fails.len();
                    let need_b = edge_needs_b(&step);
                    if need_b && self.b.is_none() { continue; }
                    // steps that take their value from the auxiliary vector need it to be non-empty
                    if matches!(step, Edge::Push(_, s) | Edge::Insert(_, _, s) if s.needs_b()) && self.mb.is_empty() { continue; }
                    self.apply(&step, out);
                    self.mid_history_check(out);
                    for f in out.fails[before..].iter_mut() { f.detail = format!("history step {k} ({step:?}): {}", f.detail); }
                    if out.faulted || out.fails.len() > before { break; }
                }
            }
            Edge::Push(api, src) => self.do_push_insert(api, src, None, out),
            Edge::Insert(api, i, src) => self.do_push_insert(api, src, Some(ix(i)), out),
            Edge::Pop(api, sink) => self.do_remove_like(api, 0, 0, sink, out),
            Edge::Remove(api, i, sink) => self.do_remove_like(api, 1, ix(i), sink, out),
            Edge::SwapRemove(api, i, sink) => self.do_remove_like(api, 2, ix(i), sink, out),
            Edge::Clear(api) => self.do_clear(api, out),
            Edge::Get(api, k, i) => self.do_get(api, k, ix(i), out),
            Edge::IterAll(api, k) => self.do_iter_all(api, k, out),
            Edge::Drain { api, a, b, form, pat, sink } => self.do_drain(api, ix(a), ix(b), form, pat, sink, out),
            Edge::Splice { api, a, b, form, pat, sink, rn, rsrc, lie } => self.do_splice(api, ix(a), ix(b), form, pat, sink, rn as usize, rsrc, lie, out),
            Edge::DrainOverflow(api, o) => self.do_range_overflow(api, o, false, out),
            Edge::SpliceOverflow(api, o) => self.do_range_overflow(api, o, true, out),
            Edge::Lazy { src, j, depth, uses, how, copies } => self.do_lazy(src, j, depth, uses, how, copies, out),
            Edge::ForgetHandle { op, idx, follow } => self.do_forget_handle(op, ix(idx), follow, out),
            Edge::ForgetRangeTyped { splice, a, b, pat, rn, follow } => self.do_forget_range_typed(splice, ix(a), ix(b), pat, rn as usize, follow, out),
            Edge::ForgetRange { splice, a, b, pat, stage, rn, follow } => self.do_forget_range(splice, ix(a), ix(b), pat, stage, rn as usize, follow, out),
            Edge::WriteRead { w: wk, r, i } => self.do_write_read(wk, r, ix(i), out),
            Edge::Swap { lhs, rhs, i } => self.do_swap(lhs, rhs, ix(i), out),
            Edge::WrongPush(src, ty) => self.do_wrong_push_insert(src, None, ty, out),
            Edge::WrongInsert(i, src, ty) => self.do_wrong_push_insert(src, Some(ix(i)), ty, out),
            Edge::WrongSpliceItem { a, b, rn, bad_at, ty } => self.do_wrong_splice(ix(a), ix(b), rn as usize, bad_at as usize, ty, out),
            Edge::WrongSwap(kind, ty) => self.do_wrong_swap(kind, ty, out),
            Edge::WrongDowncast(kind, ty) => self.do_wrong_downcast(kind, ty, out),
            Edge::TypeReports(0) => self.do_type_reports(out),
            Edge::TypeReports(_) => self.do_element_fns(out),
            Edge::RawParts { variant, then } => self.do_raw_parts(variant, then, out),
            Edge::Bytes { variant: 6, k } => self.do_placement(k as usize * 8, out),
            Edge::Bytes { variant, k } => self.do_bytes(variant, k as usize, out),
            Edge::Three { variant, a, b, rn, pat } => self.do_three(variant, ix(a), ix(b), rn as usize, pat, out),
            Edge::Cap(api, call, n) => self.do_cap(api, call, ix(n), out),
            Edge::CloneVec { then } => self.do_clone(then, out),
            Edge::Huge { op } => self.do_huge(op, out),
            Edge::UserValue { op, i } => self.do_user_value(op, i as usize, out),
            Edge::DropVec => self.do_drop_vec(out),
            Edge::Relocate { slot, then } => self.do_relocate(slot, then, out),
            Edge::CloneFrom { dst, then } => self.do_clone_from(dst, then, out),
            Edge::CloneEmpty { then } => self.do_clone_empty(then, out),
            Edge::CloneEmptyIn { target, then } => self.do_clone_empty_in(target, then, out),
            Edge::DrainAdapt { api, a, b, op } => self.do_range_adapt(api, ix(a), ix(b), op, None, out),
            Edge::SpliceAdapt { api, a, b, op, rn } => self.do_range_adapt(api, ix(a), ix(b), op, Some(rn as usize), out),
            Edge::IterAdapt { api, kind, op } => self.do_iter_adapt(api, kind, op, out),
            Edge::IterProto { api, kind, pat, clone_at } => self.do_iter_proto(api, kind, pat, clone_at, out),
            _ => { out.fail(Class::Machinery, "unimplemented-edge", format!("{e:?}")); }
        }
    }

    /// after every step of a real history: contents, views, alignment, ownership - on the state the history really reached
    pub fn mid_history_check(&mut self, out: &mut Out) {
        if out.faulted { return; }
        let sa = snap::<T, Tr, M>(&self.a);
        if !snap_matches::<T>(&sa, &self.ma) { out.fail(Class::Vec, "seq-mismatch", format!("vector {} != model {}", fmt_snap(&sa), fmt_model(&self.ma))); }
        if let Some(b) = &self.b { let sb = snap::<T, Tr, M::Aux>(b); if !snap_matches::<T>(&sb, &self.mb) { out.fail(Class::Vec, "other-seq-mismatch", format!("other vector {} != model {}", fmt_snap(&sb), fmt_model(&self.mb))); } }
        if self.a.len() > self.a.capacity() { out.fail(Class::Cap, "len-gt-cap", format!("len {} > capacity {}", self.a.len(), self.a.capacity())); }
        let base = self.a.downcast_ref::<T>().map(|t| t.as_ptr() as usize).unwrap_or(0);
        if base % T::ALIGN != 0 { out.fail(Class::Mem, "storage-misaligned", format!("storage pointer {base:#x} is not aligned to {} (len {}, cap {})", T::ALIGN, self.a.len(), self.a.capacity())); }
        else { let bts = self.a.as_bytes(); if bts.as_ptr() as usize != base || bts.len() != self.a.len() * T::SIZE { out.fail(Class::Vec, "views-incoherent", "as_bytes does not cover the typed slice".into()); } }
        self.visible_check(out);
        track::with_ts(|ts| { ts.scan(); for e in ts.errs.drain(..) { out.fails.push(Fail { class: Class::Mem, kind: if e.contains("stale") { "stale-write" } else { "oob-write" }, detail: e }); } });
        galloc::flush();
    }

    /// After a fault (C06): the vectors must stay fully usable. Re-seed the model from what is observed and run a
    /// follow-up battery restricted to the trusted kernel (typed push / insert(0) / pop / remove(0), clear).
    pub fn battery(&mut self, out: &mut Out) {
        fn one<T: Elem + SatisfyTraits<Tr>, Tr: TrX + ?Sized, MV: MX>(v: &mut AnyVec<Tr, MV>, which: &str, out: &mut Out) {
            let s0 = snap::<T, Tr, MV>(v);
            if s0.iter().any(|(_, ok)| !*ok) { return; } // already reported as garbage-visible
            let mut m: Vec<u16> = Vec::with_capacity(s0.len() + 4);
            m.extend(s0.iter().map(|x| x.0));
            let cap = v.capacity();
            let r = guarded(|| {
                let mut t = v.downcast_mut::<T>().unwrap();
                if MV::RESIZABLE || m.len() < cap { let x = T::fresh(); m.push(x.id()); t.push(x); }
                if MV::RESIZABLE || m.len() < cap { let x = T::fresh(); m.insert(0, x.id()); t.insert(0, x); }
                if !m.is_empty() { let x = t.pop().unwrap(); let want = m.pop().unwrap(); let got = x.id(); { let _w = elem::WindowOff::new(); drop(x); } if T::SIZE != 0 && got != want { let _w = elem::WindowOff::new(); return Err(format!("pop returned {got}, want {want}")); } }
                if !m.is_empty() { let x = t.remove(0); let want = m.remove(0); let got = x.id(); { let _w = elem::WindowOff::new(); drop(x); } if T::SIZE != 0 && got != want { let _w = elem::WindowOff::new(); return Err(format!("remove(0) returned {got}, want {want}")); } }
                Ok(())
            });
            match r {
                Ok(Ok(())) => {
                    let s1 = snap::<T, Tr, MV>(v);
                    if s1.len() != m.len() || (T::SIZE != 0 && !s1.iter().zip(&m).all(|((id, ok), w)| *ok && id == w)) {
                        out.fail(Class::Vec, "unusable-after-fault", format!("{which}: after the fault the vector no longer behaves like Vec: holds {:?}, want {:?}", s1.iter().map(|x| x.0).collect::<Vec<_>>(), m));
                    }
                }
                Ok(Err(e)) => out.fail(Class::Vec, "unusable-after-fault", format!("{which}: {e}")),
                Err(Caught::Injected) => {}
                Err(Caught::Panic(msg)) => out.fail(Class::Vec, "unusable-after-fault", format!("{which}: follow-up operations panicked: {msg}")),
            }
            if let Err(Caught::Panic(msg)) = guarded(|| v.clear()) { out.fail(Class::Vec, "unusable-after-fault", format!("{which}: clear panicked: {msg}")); }
            if v.len() != 0 { out.fail(Class::Vec, "unusable-after-fault", format!("{which}: len {} after clear", v.len())); }
        }
        // elements visible now must be alive / intact / unique: checked here because the battery changes the contents
        self.visible_check(out);
        one::<T, Tr, M>(&mut self.a, "vector", out);
        self.ma.clear();
        if let Some(b) = self.b.as_mut() { one::<T, Tr, M::Aux>(b, "other vector", out); self.mb.clear(); }
    }

    /// every visible element is alive, intact and appears exactly once (across A and B)
    pub fn visible_check(&self, out: &mut Out) {
        let sa = snap::<T, Tr, M>(&self.a);
        let sb = match &self.b { Some(b) => snap::<T, Tr, M::Aux>(b), None => Vec::new() };
        if T::SIZE != 0 {
            let mut seen = std::collections::HashSet::new();
            for (id, ok) in sa.iter().chain(sb.iter()) {
                if !*ok { out.fail(Class::Own, "garbage-visible", format!("element with id {id} has a broken canary (uninitialised / moved-out / overwritten memory visible)")); continue; }
                if !seen.insert(*id) { out.fail(Class::Own, "duplicate", format!("id {id} is visible twice")); }
                match elem::state_of(*id) {
                    IdState::Live => {}
                    IdState::Dead => if T::HAS_DROP { out.fail(Class::Own, "dead-visible", format!("id {id} was destroyed but is still visible")) },
                    IdState::Never => out.fail(Class::Own, "garbage-visible", format!("id {id} was never created")),
                }
            }
        } else if T::HAS_DROP {
            let visible = (sa.len() + sb.len()) as i64;
            let live = elem::with_reg(|r| r.zst_live);
            if live < visible { out.fail(Class::Own, "dead-visible", format!("{visible} zero-sized elements visible but only {live} alive")); }
        }
    }

    /// Oracles after the edge: Vec-equivalence of contents, registry, storage. Then tear everything down.
    pub fn finish(self, pre_len: usize, out: &mut Out) {
        let World { a, ma, b, mb, .. } = self;
        let sa = snap::<T, Tr, M>(&a);
        out.next = Some((a.len(), a.capacity()));
        if !out.faulted {
            if a.len() != ma.len() || a.is_empty() != ma.is_empty() { out.fail(Class::Vec, "len-mismatch", format!("len() = {}, model len {}", a.len(), ma.len())); }
            if !snap_matches::<T>(&sa, &ma) { out.fail(Class::Vec, "seq-mismatch", format!("vector {} != model {}", fmt_snap(&sa), fmt_model(&ma))); }
        }
        if a.len() > a.capacity() { out.fail(Class::Cap, "len-gt-cap", format!("len {} > capacity {}", a.len(), a.capacity())); }
        // views of the state the history really reached (not a canonical reconstruction): aligned and coherent (C12)
        {
            let base = a.downcast_ref::<T>().map(|t| t.as_ptr() as usize).unwrap_or(0);
            let inline_overaligned = matches!(M::KIND, BK::Stack | BK::StackN) && T::ALIGN > 8;
            if base % T::ALIGN != 0 && !inline_overaligned {
                out.fail(Class::Mem, "storage-misaligned", format!("after the operation the storage pointer {base:#x} is not aligned to {} (len {}, cap {})", T::ALIGN, a.len(), a.capacity()));
            } else if base % T::ALIGN == 0 {
                let b = a.as_bytes();
                if b.as_ptr() as usize != base || b.len() != a.len() * T::SIZE { out.fail(Class::Vec, "views-incoherent", format!("as_bytes covers {:#x}+{} but the typed slice is {base:#x}+{}x{}", b.as_ptr() as usize, b.len(), a.len(), T::SIZE)); }
            }
        }
        let mut sb = Vec::new();
        if let Some(b) = &b {
            sb = snap::<T, Tr, M::Aux>(b);
            if !out.faulted && !snap_matches::<T>(&sb, &mb) { out.fail(Class::Vec, "other-seq-mismatch", format!("other vector {} != model {}", fmt_snap(&sb), fmt_model(&mb))); }
        }
        // accounting by value for element types without drop glue (C03): a value leaves the vectors only by being removed
        if !out.faulted && !out.leak_ok && !T::HAS_DROP && T::SIZE != 0 {
            let visible: std::collections::HashSet<u16> = sa.iter().chain(sb.iter()).map(|x| x.0).collect();
            for m in ma.iter().chain(mb.iter()) {
                if let Mv::Id(id) = m { if !visible.contains(id) { out.fail(Class::Own, "lost-value", format!("value {id} (no drop glue) should still be in a vector but is gone: it left without being removed")); } }
            }
        }
        if !out.faulted && !out.leak_ok && T::SIZE == 0 {
            let want = ma.len() + mb.len();
            let have = sa.len() + sb.len();
            if have != want { out.fail(Class::Own, "count-mismatch", format!("{have} zero-sized elements visible, accounting by count says {want}")); }
        }
        // every visible element is alive, intact and appears once
        if T::SIZE != 0 {
            let mut seen = std::collections::HashSet::new();
            for (id, ok) in sa.iter().chain(sb.iter()) {
                if !*ok { out.fail(Class::Own, "garbage-visible", format!("element with id {id} has a broken canary (uninitialised / moved-out / overwritten memory visible)")); continue; }
                if !seen.insert(*id) { out.fail(Class::Own, "duplicate", format!("id {id} is visible twice")); }
                match elem::state_of(*id) {
                    IdState::Live => {}
                    IdState::Dead => if T::HAS_DROP { out.fail(Class::Own, "dead-visible", format!("id {id} was destroyed but is still visible")) },
                    IdState::Never => out.fail(Class::Own, "garbage-visible", format!("id {id} was never created")),
                }
            }
        } else if T::HAS_DROP {
            let visible = (sa.len() + sb.len()) as i64;
            let live = elem::with_reg(|r| r.zst_live);
            if live < visible { out.fail(Class::Own, "dead-visible", format!("{visible} zero-sized elements visible but only {live} alive")); }
        }
        // storage of the vector under test (first Mem built in this run) is never resized below the live length (C05)
        if matches!(M::KIND, BK::Track) && !out.faulted { let live = std::cmp::min(pre_len, a.len()); if let Some(e) = track::with_ts(|ts| ts.resize_below(0, live)) { out.fail(Class::Mem, "resized-below-live", e); } }
        // heap-backed vectors: at most one allocation each, none while cap x size == 0, big and aligned enough (C18)
        {
            let mut want: Vec<(usize, usize)> = Vec::new(); // (base ptr, bytes) of every heap-backed vector alive now
            let mut expect_blocks = 0usize;
            if M::KIND == BK::Heap {
                let bytes = a.capacity().saturating_mul(T::SIZE);
                if bytes > 0 { expect_blocks += 1; want.push((a.downcast_ref::<T>().map(|t| t.as_ptr() as usize).unwrap_or(0), bytes)); }
            }
            if let Some(b) = &b { if <M::Aux as MX>::KIND == BK::Heap {
                let bytes = b.capacity().saturating_mul(T::SIZE);
                if bytes > 0 { expect_blocks += 1; want.push((b.downcast_ref::<T>().map(|t| t.as_ptr() as usize).unwrap_or(0), bytes)); }
            } }
            if M::KIND == BK::Heap || (b.is_some() && <M::Aux as MX>::KIND == BK::Heap) {
                galloc::with_as(|st| {
                    if !out.faulted && st.live_blocks() != expect_blocks {
                        out.fails.push(Fail { class: Class::Alloc, kind: "block-count", detail: format!("{} heap block(s) alive, expected {expect_blocks} (one per heap vector with capacity x size > 0, none otherwise)", st.live_blocks()) });
                    }
                    for (ptr, bytes) in &want {
                        match (0..st.live_blocks()).map(|i| st.live_block(i)).find(|(u, _, _)| u == ptr) {
                            None => out.fails.push(Fail { class: Class::Alloc, kind: "storage-not-a-block", detail: format!("vector storage {ptr:#x} is not the start of a live allocation") }),
                            Some((_, size, align)) => {
                                if size < *bytes { out.fails.push(Fail { class: Class::Alloc, kind: "block-too-small", detail: format!("allocation of {size} bytes backs capacity x size = {bytes} bytes") }); }
                                if align % T::ALIGN != 0 { out.fails.push(Fail { class: Class::Alloc, kind: "block-misaligned", detail: format!("allocation requested with alignment {align}, element alignment {}", T::ALIGN) }); }
                            }
                        }
                    }
                });
            }
        }
        // tear down
        let r = guarded(move || { drop(a); drop(b); });
        if let Err(e) = r { if !matches!(e, Caught::Injected) { out.fail(Class::Own, "drop-panicked", format!("dropping the vectors panicked: {e:?}")); } }
        elem::with_reg(|r| {
            for i in 0..r.nerrs {
                let e = r.errs[i].unwrap();
                let (kind, class) = match e {
                    elem::RegErr::DoubleDrop(_) | elem::RegErr::ZstOverDrop => ("double-drop", Class::Own),
                    elem::RegErr::GarbageDrop(_) | elem::RegErr::CanaryDrop(_) => ("garbage-drop", Class::Own),
                    elem::RegErr::CloneOfDead(_) => ("clone-of-dead", Class::Own),
                    elem::RegErr::CloneOfGarbage(_) => ("clone-of-garbage", Class::Own),
                };
                out.fails.push(Fail { class, kind, detail: format!("{e:?}") });
            }
            if !out.faulted && !out.leak_ok {
                if T::HAS_DROP && T::SIZE != 0 {
                    let leaked: Vec<usize> = (0..r.next_id as usize).filter(|&i| r.state[i] == IdState::Live).collect();
                    if !leaked.is_empty() { out.fails.push(Fail { class: Class::Own, kind: "leak", detail: format!("ids {leaked:?} never destroyed after all vectors were dropped") }); }
                }
                if T::HAS_DROP && T::SIZE == 0 && r.zst_live != 0 {
                    out.fails.push(Fail { class: Class::Own, kind: "leak", detail: format!("{} zero-sized values never destroyed", r.zst_live) });
                }
            }
        });
        // storage oracles
        track::with_ts(|ts| {
            ts.scan();
            for e in ts.lifecycle_errors(T::SIZE, T::ALIGN) { out.fails.push(Fail { class: Class::Mem, kind: "mem-lifecycle", detail: e }); }
            for e in ts.errs.drain(..) { out.fails.push(Fail { class: Class::Mem, kind: if e.contains("stale") { "stale-write" } else { "oob-write" }, detail: e }); }
            if (!out.faulted || !out.leak_ok) && ts.live_blocks() != 0 { out.fails.push(Fail { class: Class::Mem, kind: "storage-leak", detail: format!("{} storage block(s) never released", ts.live_blocks()) }); }
        });
        galloc::flush();
        galloc::with_as(|st| {
            for i in 0..st.nerrs {
                let e = st.errs[i].unwrap();
                let (kind, class) = match e {
                    galloc::AErr::InvalidLayout { .. } => ("invalid-layout", Class::Alloc),
                    galloc::AErr::LayoutMismatch { .. } => ("layout-mismatch", Class::Alloc),
                    galloc::AErr::GuardDamaged { .. } => ("oob-write", Class::Mem),
                    galloc::AErr::StaleWrite { .. } => ("stale-write", Class::Mem),
                    galloc::AErr::TableFull => ("table-full", Class::Machinery),
                };
                out.fails.push(Fail { class, kind, detail: format!("{e:?}") });
            }
            if (!out.faulted || !out.leak_ok) && st.live_blocks() != 0 { out.fails.push(Fail { class: Class::Alloc, kind: "heap-leak", detail: format!("{} heap block(s) still allocated after all vectors were dropped", st.live_blocks()) }); }
        });
    }
}

/// A configuration = (element type, backend, constraint set); object-safe face of the generic executor.
pub trait Runner: Sync + Send {
    fn name(&self) -> String;
    fn elem_name(&self) -> &'static str;
    fn elem_size(&self) -> usize;
    fn elem_align(&self) -> usize;
    fn has_drop(&self) -> bool;
    fn tracked(&self) -> bool;
    fn backend(&self) -> BK;
    fn backend_name(&self) -> String;
    fn traits_name(&self) -> &'static str;
    fn cloneable(&self) -> bool;
    fn resizable(&self) -> bool;
    fn rawparts(&self) -> bool;
    fn fixed_cap(&self) -> Option<usize>;
    /// Execute one edge from canonical state `st`; `fault_at` = k-th user-code invocation panics (0 = none).
    fn run(&self, st: &St, e: &Edge, fault_at: u32) -> Out;
    /// overflow-boundary sweep (C10/C18), runs in its own process: returns "RETURNED cap=<n> need=<n|overflow>" or "PANICKED"
    fn sweep(&self, len: usize, call: u8, arg: usize) -> String;
    /// the huge arguments of the sweep for this element size
    fn sweep_args(&self, len: usize) -> Vec<usize>;
}

pub struct Cfg<T, M, Tr: ?Sized>(pub PhantomData<(fn() -> T, fn() -> M, fn() -> Box<Tr>)>);

pub fn reset_all() {
    elem::reset();
    track::with_ts(|ts| ts.reset());
    galloc::release_leaked();
    galloc::flush();
    galloc::with_as(|st| st.clear_log());
}

impl<T: Elem + SatisfyTraits<Tr>, M: MX, Tr: TrX + ?Sized> Runner for Cfg<T, M, Tr> {
    fn name(&self) -> String { format!("{}/{}/{}", T::NAME, M::name(), Tr::name()) }
    fn elem_name(&self) -> &'static str { T::NAME }
    fn elem_size(&self) -> usize { T::SIZE }
    fn elem_align(&self) -> usize { T::ALIGN }
    fn has_drop(&self) -> bool { T::HAS_DROP }
    fn tracked(&self) -> bool { T::TRACKED }
    fn backend(&self) -> BK { M::KIND }
    fn backend_name(&self) -> String { M::name() }
    fn traits_name(&self) -> &'static str { Tr::name() }
    fn cloneable(&self) -> bool { Tr::CLONEABLE }
    fn resizable(&self) -> bool { M::RESIZABLE }
    fn rawparts(&self) -> bool { M::RAWPARTS }
    fn fixed_cap(&self) -> Option<usize> { M::fixed_cap(T::SIZE) }

    fn sweep_args(&self, len: usize) -> Vec<usize> {
        let mut v = vec![usize::MAX, usize::MAX - 1, usize::MAX - len, (usize::MAX - len).wrapping_add(1), usize::MAX / 2, usize::MAX / 2 + 1];
        if T::SIZE > 0 {
            let im = (isize::MAX as usize) / T::SIZE;
            v.extend([im - 1 - len, im - len, im + 1 - len, im + 1, im + 2]);
            let um = usize::MAX / T::SIZE;
            v.extend([um - len, um + 1 - len, um + 1]);
        }
        v.sort(); v.dedup();
        v
    }

    fn sweep(&self, len: usize, call: u8, arg: usize) -> String {
        if !M::RESIZABLE { return "N/A".into(); }
        reset_all();
        galloc::with_as(|st| st.announce_refusals = true);
        let st = St { len: len as u16, cap: len as u16, spare: Spare::Pristine };
        let mut w = match World::<T, M, Tr>::build(&st, false) { Ok(w) => w, Err(e) => return format!("MACHINERY {e}") };
        let a = &mut w.a;
        let r = guarded(|| match call {
            0 => { M::cap_call(a, CapCall::Reserve, arg); a.capacity() }
            1 => { M::cap_call(a, CapCall::ReserveExact, arg); a.capacity() }
            2 => { let mut t = a.downcast_mut::<T>().unwrap(); M::cap_call_typed(&mut *t, CapCall::Reserve, arg); t.capacity() }
            _ => { let v = M::with_capacity::<T, Tr>(arg); let c = v.capacity(); drop(v); c }
        });
        let need = if call == 3 { Some(arg) } else { len.checked_add(arg) };
        let s = snap::<T, Tr, M>(&w.a);
        let intact = snap_matches::<T>(&s, &w.ma);
        let cap_after = w.a.capacity();
        // keep using the vector after the (possibly rejected) request: two more pushes must stay inside the storage (C05)
        if T::SIZE != 0 {
            let a = &mut w.a;
            let _ = guarded(|| { let mut t = a.downcast_mut::<T>().unwrap(); t.push(T::fresh()); t.push(T::fresh()); });
        }
        // the vector must still be droppable and the allocator must see consistent layouts (C18)
        let dropped = guarded(move || drop(w)).is_ok();
        galloc::flush();
        let (aerrs, live) = galloc::with_as(|st| {
            let mut v = Vec::new();
            for i in 0..st.nerrs { v.push(format!("{:?}", st.errs[i].unwrap()).replace(' ', "")); }
            (v, st.live_blocks())
        });
        let tail = format!("need={} intact={intact} cap_before={len} cap_after={cap_after} dropped={dropped} live_blocks={live} alloc_errs={}", need.map(|n| n.to_string()).unwrap_or("overflow".into()), if aerrs.is_empty() { "-".to_string() } else { aerrs.join(",") });
        match r {
            Ok(c) => format!("RETURNED cap={c} {tail}"),
            Err(_) => format!("PANICKED {tail}"),
        }
    }

    fn run(&self, st: &St, e: &Edge, fault_at: u32) -> Out {
        reset_all();
        let mut out = Out::default();
        let need_b = edge_needs_b(e);
        let mut w = match World::<T, M, Tr>::build(st, need_b) {
            Ok(w) => w,
            Err(msg) => {
                if M::build_panics(T::SIZE) && msg.starts_with("construction panicked") { out.outcome.push_str("construct-panics"); }
                else if let Some(m) = msg.strip_prefix("FIXED-CAPACITY: ") { out.fail(Class::Cap, "fixed-capacity", format!("{}: {m}", M::name())); }
                else if msg.starts_with("construction panicked") {
                    // a constructor that panics although the backend can hold the requested state
                    let class = if M::RESIZABLE { Class::Vec } else { Class::Cap };
                    out.fail(class, "construction-panicked", format!("constructing an empty {}-backed vector of {} ({} bytes, align {}) panicked: {msg}", M::name(), T::NAME, T::SIZE, T::ALIGN));
                }
                else { out.fail(Class::Machinery, "construction", msg); }
                return out;
            }
        };
        if M::build_panics(T::SIZE) { out.fail(Class::Cap, "missing-construct-panic", format!("{} for a {}-byte element must panic at construction (N elements do not fit in SIZE bytes)", M::name(), T::SIZE)); return out; }
        // construction done: arm the fault injector, forget construction-time user calls
        galloc::with_as(|st| st.clear_log());
        elem::with_reg(|r| { r.user_calls = 0; r.fault_at = fault_at; r.fault_fired = false; });
        let pre_len = w.ma.len();
        w.apply(e, &mut out);
        elem::with_reg(|r| { r.fault_at = 0; out.user_calls = r.user_calls; if r.fault_fired { out.faulted = true; } });
        // (a panicking operation allocates its payload in std's panic machinery: not the vector's doing)
        if matches!(M::KIND, BK::Stack | BK::StackN) && !matches!(e, Edge::CloneEmptyIn { target: 0, .. } | Edge::IterProto { .. } | Edge::Three { .. }) && !out.outcome.contains("panic") && out.fails.is_empty() && !out.faulted {
            let n = galloc::with_as(|st| st.allocs + st.reallocs);
            if n != 0 { out.fail(Class::Alloc, "stack-allocates", format!("{n} heap allocation call(s) inside an operation on a {}-backed vector", M::name())); }
        }
        if out.faulted && fault_at != 0 { w.battery(&mut out); }
        w.finish(pre_len, &mut out);
        out
    }
}

pub fn edge_needs_b(e: &Edge) -> bool {
    match e {
        Edge::Push(_, s) | Edge::Insert(_, _, s) => s.needs_b(),
        Edge::Pop(_, s) | Edge::Remove(_, _, s) | Edge::SwapRemove(_, _, s) => matches!(s, Sink::MutMoveB | Sink::PushB | Sink::InsertB0 | Sink::LazyB(_)),
        Edge::Drain { sink, .. } => matches!(sink, Sink::MutMoveB | Sink::PushB | Sink::InsertB0 | Sink::LazyB(_)),
        Edge::Splice { sink, rsrc, .. } => matches!(sink, Sink::MutMoveB | Sink::PushB | Sink::InsertB0 | Sink::LazyB(_)) || matches!(rsrc, RSrc::BDrain | RSrc::LzRefs),
        Edge::Lazy { .. } | Edge::ForgetRange { .. } | Edge::WriteRead { .. } | Edge::Swap { .. } | Edge::History { .. } | Edge::Three { .. } => true,
        _ => false,
    }
}
