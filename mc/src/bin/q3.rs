use std::marker::PhantomData;
#[allow(unused_imports)] use any_vec::mem::{Stack, StackN};
#[allow(unused_imports)] use any_vec::traits::{Cloneable, None as TNone};
#[allow(unused_imports)] use anyvec_mc::elem::*;
use anyvec_mc::exec::{Cfg, Runner};
#[allow(unused_imports)] use anyvec_mc::track::{Track, TrackFence, TrackFixed, TrackTight};
use anyvec_mc::Entry;
#[cfg(feature = "alloc")] #[allow(unused_imports)] use any_vec::mem::Heap;

macro_rules! c { ($v:ident, $q:expr, $g:expr, $t:ty, $m:ty, $tr:ty) => { $v.push(Entry { r: Box::new(Cfg::<$t, $m, $tr>(PhantomData)) as Box<dyn Runner>, quick: $q, group: $g }); }; }

fn cfgs() -> Vec<Entry> {
    let mut v: Vec<Entry> = Vec::new();
    c!(v, true,"empty",W8D,any_vec::mem::Empty,dyn Cloneable);
    c!(v, true,"empty",ZD,any_vec::mem::Empty,dyn TNone);
    c!(v, true,"align",Q16D,Stack<64>,dyn Cloneable);
    c!(v, true,"align",A64D,Stack<256>,dyn Cloneable);
    c!(v, true,"align",A32D,StackN<2, 64>,dyn Cloneable);
    c!(v, true,"align",Q16D,StackN<2, 32>,dyn TNone);
    c!(v, true,"align",Q16D,TrackFixed<2>,dyn Cloneable);
    #[cfg(feature = "alloc")] { c!(v, true,"plain",u64,Heap,dyn Cloneable); }
    #[cfg(feature = "alloc")] { c!(v, true,"plain",i64,Heap,dyn TNone); }
    #[cfg(feature = "alloc")] { c!(v, true,"plain",f64,Heap,dyn Cloneable); }
    c!(v, true,"plain",[u8; 8],Track,dyn Cloneable);
    v
}
fn main() { anyvec_mc::main_with(cfgs) }
