use std::marker::PhantomData;
#[allow(unused_imports)] use any_vec::mem::{Stack, StackN};
#[allow(unused_imports)] use any_vec::traits::{Cloneable, None as TNone};
#[allow(unused_imports)] use anyvec_mc::elem::*;
use anyvec_mc::exec::{Cfg, Runner};
#[allow(unused_imports)] use anyvec_mc::track::{Track, TrackFence, TrackFixed, TrackTight};
use anyvec_mc::Entry;
#[cfg(feature = "alloc")] #[allow(unused_imports)] use any_vec::mem::Heap;

macro_rules! c { ($v:ident, $q:expr, $g:expr, $t:ty, $m:ty, $tr:ty) => { $v.push(Entry { r: Box::new(Cfg::<$t, $m, $tr>(PhantomData)) as Box<dyn Runner>, quick: $q, group: $g }); }; }

fn cfgs() -> Vec<Entry> {
    let mut v: Vec<Entry> = Vec::new();
    c!(v, false,"general",Z,Track,dyn Cloneable);
    c!(v, false,"general",ZD,Track,dyn Cloneable);
    c!(v, false,"general",ZA64,Track,dyn Cloneable);
    c!(v, false,"general",B1,Track,dyn Cloneable);
    c!(v, false,"general",B1D,Track,dyn Cloneable);
    c!(v, false,"general",H2D,Track,dyn Cloneable);
    c!(v, false,"general",X24D,Track,dyn Cloneable);
    c!(v, false,"general",D12D,Track,dyn Cloneable);
    c!(v, false,"general",X24D,TrackFence<false>,dyn Cloneable);
    c!(v, false,"general",T3D,TrackFence<false>,dyn Cloneable);
    c!(v, false,"general",A32D,TrackFence<true>,dyn Cloneable);
    c!(v, false,"general",L160D,TrackFence<false>,dyn TNone);
    v
}
fn main() { anyvec_mc::main_with(cfgs) }
