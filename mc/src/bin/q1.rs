use std::marker::PhantomData;
#[allow(unused_imports)] use any_vec::mem::{Stack, StackN};
#[allow(unused_imports)] use any_vec::traits::{Cloneable, None as TNone};
#[allow(unused_imports)] use anyvec_mc::elem::*;
use anyvec_mc::exec::{Cfg, Runner};
#[allow(unused_imports)] use anyvec_mc::track::{Track, TrackFence, TrackFixed, TrackGreedy, TrackKey, TrackTight, TrackWarm};
use anyvec_mc::Entry;
#[cfg(feature = "alloc")] #[allow(unused_imports)] use any_vec::mem::Heap;

macro_rules! c { ($v:ident, $q:expr, $g:expr, $t:ty, $m:ty, $tr:ty) => { $v.push(Entry { r: Box::new(Cfg::<$t, $m, $tr>(PhantomData)) as Box<dyn Runner>, quick: $q, group: $g }); }; }

fn cfgs() -> Vec<Entry> {
    let mut v: Vec<Entry> = Vec::new();
    c!(v, true,"general",L160D,Track,dyn Cloneable);
    c!(v, true,"general",W8,Track,dyn Cloneable);
    c!(v, true,"general",X24D,Track,dyn Send + Sync);
    c!(v, true,"general",D12D,Track,dyn Cloneable + Send);
    c!(v, true,"general",W8D,TrackTight,dyn Cloneable);
    c!(v, true,"general",T3D,TrackTight,dyn Cloneable);
    c!(v, true,"general",W8D,TrackFence<false>,dyn Cloneable);
    c!(v, true,"general",B1D,TrackFence<true>,dyn Cloneable);
    c!(v, true,"fixed",W8D,Stack<32>,dyn Cloneable);
    c!(v, true,"fixed",B1D,StackN<3, 3>,dyn Cloneable);
    c!(v, true,"fixed",W8D,StackN<3, 40>,dyn Cloneable); // slack: SIZE / N is not the element size
    c!(v, true,"fixed",Z,Stack<8>,dyn Cloneable); // zero-sized, no drop glue, unbounded capacity: len == usize::MAX is reachable (set_len)
    c!(v, true,"fixed",W8D,TrackFixed<4>,dyn Cloneable);
    c!(v, true,"general",W8D,TrackWarm,dyn Cloneable);
    c!(v, true,"general",T3D,TrackGreedy,dyn Cloneable);
    c!(v, true,"general",W8D,TrackKey,dyn Cloneable); // stateful builder, raw parts with a ticket handle, keyed Mem, warm build
    v
}
fn main() { anyvec_mc::main_with(cfgs) }
