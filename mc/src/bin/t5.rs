use std::marker::PhantomData;
#[allow(unused_imports)] use any_vec::mem::{Stack, StackN};
#[allow(unused_imports)] use any_vec::traits::{Cloneable, None as TNone};
#[allow(unused_imports)] use anyvec_mc::elem::*;
use anyvec_mc::exec::{Cfg, Runner};
#[allow(unused_imports)] use anyvec_mc::track::{Track, TrackFence, TrackFixed, TrackTight};
use anyvec_mc::Entry;
#[cfg(feature = "alloc")] #[allow(unused_imports)] use any_vec::mem::Heap;

macro_rules! c { ($v:ident, $q:expr, $g:expr, $t:ty, $m:ty, $tr:ty) => { $v.push(Entry { r: Box::new(Cfg::<$t, $m, $tr>(PhantomData)) as Box<dyn Runner>, quick: $q, group: $g }); }; }

fn cfgs() -> Vec<Entry> {
    let mut v: Vec<Entry> = Vec::new();
    c!(v, false,"fixed",W8D,StackN<3, 24>,dyn Cloneable);
    c!(v, false,"fixed",W8D,StackN<2, 32>,dyn TNone);
    c!(v, false,"fixed",X24D,Stack<96>,dyn Cloneable);
    c!(v, false,"fixed",A64D,TrackFixed<3>,dyn Cloneable);
    c!(v, false,"fixed",L160D,TrackFixed<2>,dyn TNone);
    v
}
fn main() { anyvec_mc::main_with(cfgs) }
