use std::marker::PhantomData;
#[allow(unused_imports)] use any_vec::mem::{Stack, StackN};
#[allow(unused_imports)] use any_vec::traits::{Cloneable, None as TNone};
#[allow(unused_imports)] use anyvec_mc::elem::*;
use anyvec_mc::exec::{Cfg, Runner};
#[allow(unused_imports)] use anyvec_mc::track::{Track, TrackFence, TrackFixed, TrackTight};
use anyvec_mc::Entry;
#[cfg(feature = "alloc")] #[allow(unused_imports)] use any_vec::mem::Heap;

macro_rules! c { ($v:ident, $q:expr, $g:expr, $t:ty, $m:ty, $tr:ty) => { $v.push(Entry { r: Box::new(Cfg::<$t, $m, $tr>(PhantomData)) as Box<dyn Runner>, quick: $q, group: $g }); }; }

fn cfgs() -> Vec<Entry> {
    let mut v: Vec<Entry> = Vec::new();
    c!(v, true,"grid",W8D,Stack<7>,dyn Cloneable);
    c!(v, true,"grid",W8D,Stack<8>,dyn Cloneable);
    c!(v, true,"grid",W8D,Stack<9>,dyn Cloneable);
    c!(v, true,"grid",W8D,Stack<16>,dyn Cloneable);
    c!(v, true,"grid",W8D,StackN<1, 7>,dyn Cloneable);
    c!(v, true,"grid",W8D,StackN<1, 8>,dyn Cloneable);
    c!(v, true,"grid",W8D,StackN<3, 23>,dyn Cloneable);
    c!(v, true,"grid",W8D,StackN<2, 19>,dyn Cloneable);
    c!(v, true,"grid",B1D,StackN<2, 5>,dyn Cloneable);
    c!(v, true,"grid",B1D,Stack<0>,dyn Cloneable);
    c!(v, true,"grid",B1D,Stack<1>,dyn Cloneable);
    c!(v, true,"grid",B1D,StackN<0, 0>,dyn Cloneable);
    c!(v, true,"grid",ZD,Stack<5>,dyn Cloneable);
    c!(v, true,"grid",W8A4D,Stack<32>,dyn Cloneable);
    c!(v, true,"grid",P4A1D,Stack<9>,dyn Cloneable);
    c!(v, true,"grid",H2A1,StackN<3, 6>,dyn Cloneable);
    v
}
fn main() { anyvec_mc::main_with(cfgs) }
