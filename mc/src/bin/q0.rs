use std::marker::PhantomData;
#[allow(unused_imports)] use any_vec::mem::{Stack, StackN};
#[allow(unused_imports)] use any_vec::traits::{Cloneable, None as TNone};
#[allow(unused_imports)] use anyvec_mc::elem::*;
use anyvec_mc::exec::{Cfg, Runner};
#[allow(unused_imports)] use anyvec_mc::track::{Track, TrackFence, TrackFixed, TrackTight};
use anyvec_mc::Entry;
#[cfg(feature = "alloc")] #[allow(unused_imports)] use any_vec::mem::Heap;

macro_rules! c { ($v:ident, $q:expr, $g:expr, $t:ty, $m:ty, $tr:ty) => { $v.push(Entry { r: Box::new(Cfg::<$t, $m, $tr>(PhantomData)) as Box<dyn Runner>, quick: $q, group: $g }); }; }

fn cfgs() -> Vec<Entry> {
    let mut v: Vec<Entry> = Vec::new();
    #[cfg(feature = "alloc")] { c!(v, true,"general",W8D,Heap,dyn Cloneable); }
    #[cfg(feature = "alloc")] { c!(v, true,"general",B1D,Heap,dyn Cloneable + Send); }
    #[cfg(feature = "alloc")] { c!(v, true,"general",T3D,Heap,dyn Cloneable + Sync); }
    #[cfg(feature = "alloc")] { c!(v, true,"general",A32D,Heap,dyn Cloneable + Send + Sync); }
    #[cfg(feature = "alloc")] { c!(v, true,"general",ZD,Heap,dyn Cloneable); }
    #[cfg(feature = "alloc")] { c!(v, true,"general",W8D,Heap,dyn TNone);
    #[cfg(feature = "alloc")] { c!(v, true,"general",H2D,Heap,dyn Send); }
    #[cfg(feature = "alloc")] { c!(v, true,"general",Q16D,Heap,dyn Sync); } }
    #[cfg(feature = "alloc")] { c!(v, true,"general",A64D,Heap,dyn Cloneable); }
    #[cfg(feature = "alloc")] { c!(v, true,"general",F40D,Heap,dyn Cloneable); }
    #[cfg(feature = "alloc")] { c!(v, true,"general",Z,Heap,dyn Cloneable); }
    v
}
fn main() { anyvec_mc::main_with(cfgs) }
