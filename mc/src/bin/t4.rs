use std::marker::PhantomData;
#[allow(unused_imports)] use any_vec::mem::{Stack, StackN};
#[allow(unused_imports)] use any_vec::traits::{Cloneable, None as TNone};
#[allow(unused_imports)] use anyvec_mc::elem::*;
use anyvec_mc::exec::{Cfg, Runner};
#[allow(unused_imports)] use anyvec_mc::track::{Track, TrackFence, TrackFixed, TrackTight};
use anyvec_mc::Entry;
#[cfg(feature = "alloc")] #[allow(unused_imports)] use any_vec::mem::Heap;

macro_rules! c { ($v:ident, $q:expr, $g:expr, $t:ty, $m:ty, $tr:ty) => { $v.push(Entry { r: Box::new(Cfg::<$t, $m, $tr>(PhantomData)) as Box<dyn Runner>, quick: $q, group: $g }); }; }

fn cfgs() -> Vec<Entry> {
    let mut v: Vec<Entry> = Vec::new();
    c!(v, false,"fixed",ZD,Stack<0>,dyn Cloneable);
    c!(v, false,"fixed",ZD,StackN<3, 0>,dyn Cloneable);
    c!(v, false,"fixed",ZD,TrackFixed<3>,dyn Cloneable);
    c!(v, false,"fixed",B1D,Stack<4>,dyn Cloneable);
    c!(v, false,"fixed",B1D,TrackFixed<4>,dyn Cloneable);
    c!(v, false,"fixed",T3D,Stack<13>,dyn Cloneable);
    c!(v, false,"fixed",W8D,Stack<39>,dyn TNone);
    v
}
fn main() { anyvec_mc::main_with(cfgs) }
