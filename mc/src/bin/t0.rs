use std::marker::PhantomData;
#[allow(unused_imports)] use any_vec::mem::{Stack, StackN};
#[allow(unused_imports)] use any_vec::traits::{Cloneable, None as TNone};
#[allow(unused_imports)] use anyvec_mc::elem::*;
use anyvec_mc::exec::{Cfg, Runner};
#[allow(unused_imports)] use anyvec_mc::track::{Track, TrackFence, TrackFixed, TrackTight, TrackWarm};
use anyvec_mc::Entry;
#[cfg(feature = "alloc")] #[allow(unused_imports)] use any_vec::mem::Heap;

macro_rules! c { ($v:ident, $q:expr, $g:expr, $t:ty, $m:ty, $tr:ty) => { $v.push(Entry { r: Box::new(Cfg::<$t, $m, $tr>(PhantomData)) as Box<dyn Runner>, quick: $q, group: $g }); }; }

fn cfgs() -> Vec<Entry> {
    let mut v: Vec<Entry> = Vec::new();
    #[cfg(feature = "alloc")] { c!(v, false,"general",ZA64,Heap,dyn Cloneable); }
    #[cfg(feature = "alloc")] { c!(v, false,"general",B1,Heap,dyn Cloneable); }
    #[cfg(feature = "alloc")] { c!(v, false,"general",H2D,Heap,dyn Cloneable); }
    #[cfg(feature = "alloc")] { c!(v, false,"general",W8,Heap,dyn Cloneable); }
    #[cfg(feature = "alloc")] { c!(v, false,"general",W8A4,Heap,dyn Cloneable); }
    #[cfg(feature = "alloc")] { c!(v, false,"general",B1D,Heap,dyn Cloneable); }
    #[cfg(feature = "alloc")] { c!(v, false,"general",T3D,Heap,dyn Cloneable); }
    #[cfg(feature = "alloc")] { c!(v, false,"general",A32D,Heap,dyn Cloneable); }
    c!(v, false,"general",F40D,TrackWarm,dyn Cloneable + Send);
    v
}
fn main() { anyvec_mc::main_with(cfgs) }
