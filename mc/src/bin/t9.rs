use std::marker::PhantomData;
#[allow(unused_imports)] use any_vec::mem::{Stack, StackN};
#[allow(unused_imports)] use any_vec::traits::{Cloneable, None as TNone};
#[allow(unused_imports)] use anyvec_mc::elem::*;
use anyvec_mc::exec::{Cfg, Runner};
#[allow(unused_imports)] use anyvec_mc::track::{Track, TrackFence, TrackFixed, TrackTight};
use anyvec_mc::Entry;
#[cfg(feature = "alloc")] #[allow(unused_imports)] use any_vec::mem::Heap;

macro_rules! c { ($v:ident, $q:expr, $g:expr, $t:ty, $m:ty, $tr:ty) => { $v.push(Entry { r: Box::new(Cfg::<$t, $m, $tr>(PhantomData)) as Box<dyn Runner>, quick: $q, group: $g }); }; }

fn cfgs() -> Vec<Entry> {
    let mut v: Vec<Entry> = Vec::new();
    c!(v, false,"grid",B1D,Stack<2>,dyn Cloneable);
    c!(v, false,"grid",B1D,Stack<3>,dyn Cloneable);
    c!(v, false,"grid",B1D,StackN<1, 0>,dyn Cloneable);
    c!(v, false,"grid",B1D,StackN<1, 1>,dyn Cloneable);
    c!(v, false,"grid",B1D,StackN<3, 2>,dyn Cloneable);
    c!(v, false,"grid",B1D,StackN<3, 4>,dyn Cloneable);
    c!(v, false,"grid",T3D,Stack<2>,dyn Cloneable);
    c!(v, false,"grid",T3D,Stack<3>,dyn Cloneable);
    c!(v, false,"grid",T3D,Stack<8>,dyn Cloneable);
    c!(v, false,"grid",T3D,Stack<9>,dyn Cloneable);
    c!(v, false,"grid",T3D,StackN<3, 8>,dyn Cloneable);
    c!(v, false,"grid",T3D,StackN<3, 9>,dyn Cloneable);
    c!(v, false,"grid",ZD,Stack<0>,dyn TNone);
    c!(v, false,"grid",ZD,StackN<0, 0>,dyn Cloneable);
    c!(v, false,"grid",ZD,StackN<3, 0>,dyn TNone);
    v
}
fn main() { anyvec_mc::main_with(cfgs) }
