use std::marker::PhantomData;
#[allow(unused_imports)] use any_vec::mem::{Stack, StackN};
#[allow(unused_imports)] use any_vec::traits::{Cloneable, None as TNone};
#[allow(unused_imports)] use anyvec_mc::elem::*;
use anyvec_mc::exec::{Cfg, Runner};
#[allow(unused_imports)] use anyvec_mc::track::{Track, TrackFence, TrackFixed, TrackTight};
use anyvec_mc::Entry;
#[cfg(feature = "alloc")] #[allow(unused_imports)] use any_vec::mem::Heap;

macro_rules! c { ($v:ident, $q:expr, $g:expr, $t:ty, $m:ty, $tr:ty) => { $v.push(Entry { r: Box::new(Cfg::<$t, $m, $tr>(PhantomData)) as Box<dyn Runner>, quick: $q, group: $g }); }; }

fn cfgs() -> Vec<Entry> {
    let mut v: Vec<Entry> = Vec::new();
    c!(v, false,"fixed",W8D,Stack<24>,dyn TNone);
    c!(v, false,"fixed",W8D,Stack<24>,dyn Send);
    c!(v, false,"fixed",W8D,Stack<24>,dyn Sync);
    c!(v, false,"fixed",W8D,Stack<24>,dyn Send + Sync);
    c!(v, false,"fixed",W8D,Stack<24>,dyn Cloneable + Send);
    c!(v, false,"fixed",W8D,Stack<24>,dyn Cloneable + Sync);
    c!(v, false,"fixed",W8D,Stack<24>,dyn Cloneable + Send + Sync);
    v
}
fn main() { anyvec_mc::main_with(cfgs) }
