use std::marker::PhantomData;
#[allow(unused_imports)] use any_vec::mem::{Stack, StackN};
#[allow(unused_imports)] use any_vec::traits::{Cloneable, None as TNone};
#[allow(unused_imports)] use anyvec_mc::elem::*;
use anyvec_mc::exec::{Cfg, Runner};
#[allow(unused_imports)] use anyvec_mc::track::{Track, TrackFence, TrackFixed, TrackTight};
use anyvec_mc::Entry;
#[cfg(feature = "alloc")] #[allow(unused_imports)] use any_vec::mem::Heap;

macro_rules! c { ($v:ident, $q:expr, $g:expr, $t:ty, $m:ty, $tr:ty) => { $v.push(Entry { r: Box::new(Cfg::<$t, $m, $tr>(PhantomData)) as Box<dyn Runner>, quick: $q, group: $g }); }; }

fn cfgs() -> Vec<Entry> {
    let mut v: Vec<Entry> = Vec::new();
    c!(v, true,"noalloc",W8D,Stack<32>,dyn Cloneable);
    c!(v, true,"noalloc",B1D,StackN<3, 3>,dyn Cloneable);
    c!(v, true,"noalloc",T3D,Stack<13>,dyn TNone);
    c!(v, true,"noalloc",ZD,Stack<5>,dyn Cloneable);
    c!(v, true,"noalloc",X24D,StackN<2, 64>,dyn Cloneable + Send + Sync);
    c!(v, true,"noalloc",W8,Stack<24>,dyn Send);
    // the zero-capacity backend (the crate's default backend when the alloc feature is off)
    c!(v, true,"noalloc",W8D,any_vec::mem::Empty,dyn Cloneable);
    c!(v, true,"noalloc",H2D,any_vec::mem::Empty,dyn TNone); // (alignment <= 8: without alloc the auxiliary vectors live in inline storage)
    v
}
fn main() { anyvec_mc::main_with(cfgs) }
