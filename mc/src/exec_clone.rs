//! Clone families (C08): clone / clone_empty / clone_empty_in followed by single operations on either side.

use std::any::TypeId;
use std::alloc::Layout;

use any_vec::any_value::AnyValueWrapper;
use any_vec::mem::{Stack, StackN};
use any_vec::{AnyVec, SatisfyTraits};

use crate::caps::{PushC, TrX, MX};
use crate::elem::{self, Elem};
use crate::exec::{guarded, snap, snap_matches, Caught, Out, World};
use crate::track::{Track, TrackFixed};
use crate::types::*;

pub const N_THEN: u8 = 11;
pub const N_TARGETS: u8 = 8;

fn fmt_ids(s: &crate::exec::Snap) -> String { format!("{:?}", s.iter().map(|x| x.0).collect::<Vec<_>>()) }

/// follow-up operation `then` applied to `x` (with model `mx`); 0 = nothing. Only simple operations.
fn follow_up<T: Elem + SatisfyTraits<Tr>, Tr: TrX + ?Sized, MT: MX>(x: &mut AnyVec<Tr, MT>, mx: &mut Vec<Mv>, then: u8, out: &mut Out) {
    let cap = x.capacity();
    let full = !MT::RESIZABLE && mx.len() >= cap;
    mx.reserve(4); // harness allocations stay outside the library window
    let r = guarded(|| match then {
        1 => { if !full { let v = T::fresh(); mx.push(Mv::Id(v.id())); x.downcast_mut::<T>().unwrap().push(v); } }
        2 => { if !full { let v = T::fresh(); mx.push(Mv::Id(v.id())); x.push(AnyValueWrapper::new(v)); } }
        3 => { if !full { let v = T::fresh(); mx.insert(0, Mv::Id(v.id())); x.insert(0, AnyValueWrapper::new(v)); } }
        4 => { if !mx.is_empty() { mx.pop(); drop(x.pop()); } }
        5 => { if !mx.is_empty() { mx.remove(0); drop(x.remove(0)); } }
        6 => { if !mx.is_empty() { mx.swap_remove(0); drop(x.swap_remove(0)); } }
        7 => { mx.clear(); x.clear(); }
        8 => { if !mx.is_empty() { let mut e = x.at_mut(0); let t = e.downcast_mut::<T>().unwrap(); let _w = elem::WindowOff::new(); t.retag(); mx[0] = Mv::Id(t.id()); } }
        9 => { if mx.len() >= 2 { let d = x.drain(0..1); drop(d); mx.remove(0); } }
        10 => { if !full { let v = T::fresh(); let id = v.id(); let n = mx.len(); let d = x.splice(n..n, [AnyValueWrapper::new(v)]); drop(d); mx.push(Mv::Id(id)); } }
        _ => {}
    });
    match r {
        Ok(()) => {}
        Err(Caught::Injected) => out.faulted = true,
        Err(Caught::Panic(m)) => out.fail(Class::Vec, "follow-up-panicked", format!("operation {then} after clone panicked: {m}")),
    }
}

pub fn follow_up_pub<T: Elem + SatisfyTraits<Tr>, Tr: TrX + ?Sized, MT: MX>(x: &mut AnyVec<Tr, MT>, mx: &mut Vec<Mv>, then: u8, out: &mut Out) { follow_up::<T, Tr, MT>(x, mx, then, out) }

/// `proto.clone_empty_in(Track)`: reports the element type, accepts and destroys a value
fn hop<T: Elem + SatisfyTraits<Tr>, Tr: TrX + ?Sized, MP: MX>(proto: &AnyVec<Tr, MP>, out: &mut Out) {
    match guarded(|| proto.clone_empty_in(Track)) {
        Ok(mut c) => {
            if c.element_typeid() != TypeId::of::<T>() || c.element_layout() != Layout::new::<T>() { out.fail(Class::Type, "empty-clone-layout", format!("second-hop clone_empty_in reports layout {:?}", c.element_layout())); }
            let base = c.as_bytes().as_ptr() as usize;
            if base % T::ALIGN != 0 { out.fail(Class::Mem, "storage-misaligned", format!("second-hop clone_empty_in: storage pointer {base:#x} is not aligned to {}", T::ALIGN)); }
            else if c.downcast_ref::<T>().is_some() {
                let r = guarded(|| { let v = T::fresh(); let id = v.id(); c.downcast_mut::<T>().unwrap().push(v); let b2 = c.downcast_ref::<T>().unwrap().as_ptr() as usize; (id, b2) });
                match r {
                    Ok((id, b2)) => {
                        if b2 % T::ALIGN != 0 { out.fail(Class::Mem, "storage-misaligned", format!("second-hop clone_empty_in: storage pointer {b2:#x} after a push is not aligned to {}", T::ALIGN)); }
                        else if T::SIZE != 0 && c.downcast_ref::<T>().unwrap().as_slice()[0].id() != id { out.fail(Class::Vec, "empty-clone-seq", "second-hop clone_empty_in does not hold the pushed value".into()); }
                    }
                    Err(Caught::Injected) => out.faulted = true,
                    Err(Caught::Panic(m)) => out.fail(Class::Vec, "empty-clone-rejects", format!("second-hop clone_empty_in refused a value: {m}")),
                }
            } else { out.fail(Class::Type, "empty-clone-downcast", "second-hop clone_empty_in does not downcast to the element type".into()); }
            let _ = guarded(move || drop(c));
        }
        Err(Caught::Injected) => out.faulted = true,
        Err(Caught::Panic(m)) => out.fail(Class::Vec, "clone-empty-panicked", format!("second-hop clone_empty_in(Track) panicked: {m}")),
    }
}

/// an empty clone must accept, destroy and (if cloneable) clone the same values
fn exercise_empty<T: Elem + SatisfyTraits<Tr>, Tr: TrX + ?Sized, MS: MX, MT: MX>(src: &AnyVec<Tr, MS>, msrc: &[Mv], mut e: AnyVec<Tr, MT>, then: u8, out: &mut Out) {
    if e.len() != 0 || !e.is_empty() { out.fail(Class::Vec, "empty-clone-not-empty", format!("clone_empty* returned len {}", e.len())); }
    if e.element_typeid() != TypeId::of::<T>() { out.fail(Class::Type, "empty-clone-typeid", "clone_empty* reports a different element_typeid".into()); }
    if e.element_layout() != Layout::new::<T>() { out.fail(Class::Type, "empty-clone-layout", format!("clone_empty* reports layout {:?}", e.element_layout())); }
    if e.downcast_ref::<T>().is_none() { out.fail(Class::Type, "empty-clone-downcast", "empty clone does not downcast to the element type".into()); return; }
    // second hop: an empty clone is itself a valid prototype - whatever the first target was, a vector derived from it asks its
    // backend for storage with the element type's layout (the Track lifecycle oracle sees the request) and works
    hop::<T, Tr, MT>(&e, out);
    if let Some(c) = MT::fixed_cap(T::SIZE) { if e.capacity() != c { out.fail(Class::Cap, "empty-clone-capacity", format!("capacity {} on {} (want {c})", e.capacity(), MT::name())); } }
    let mut me: Vec<Mv> = Vec::with_capacity(16);
    let room = |me: &Vec<Mv>, e: &AnyVec<Tr, MT>| MT::RESIZABLE || me.len() < e.capacity();
    // accepts values (erased + typed), lazy clones of the source's elements
    let r = guarded(|| {
        if room(&me, &e) { let v = T::fresh(); me.push(Mv::Id(v.id())); e.push(AnyValueWrapper::new(v)); }
        if room(&me, &e) { let v = T::fresh(); me.push(Mv::Id(v.id())); e.downcast_mut::<T>().unwrap().push(v); }
        if Tr::CLONEABLE && !msrc.is_empty() && room(&me, &e) {
            let el = src.at(0);
            Tr::lz_element(&*el, 1, &mut e, PushC);
            me.push(Mv::CloneOf(match msrc[0] { Mv::Id(i) => i, Mv::CloneOf(p) => p }));
        }
    });
    if let Err(x) = r { if matches!(x, Caught::Injected) { out.faulted = true; } else { out.fail(Class::Vec, "empty-clone-rejects", format!("empty clone on {} refused a value: {x:?}", MT::name())); } }
    follow_up::<T, Tr, MT>(&mut e, &mut me, then, out);
    let s = snap::<T, Tr, MT>(&e);
    if !out.faulted && !snap_matches::<T>(&s, &me) { out.fail(Class::Vec, "empty-clone-seq", format!("empty clone holds {} want {:?}", fmt_ids(&s), me)); }
    // clones the same values
    if Tr::CLONEABLE && !out.faulted {
        let before = elem::with_reg(|r| r.clones + r.zst_clones);
        match guarded(|| Tr::clone_vec(&e)) {
            Ok(c2) => {
                let s2 = snap::<T, Tr, MT>(&c2);
                let want: Vec<Mv> = s.iter().map(|(id, _)| Mv::CloneOf(*id)).collect();
                if !snap_matches::<T>(&s2, &want) { out.fail(Class::Vec, "empty-clone-clone", format!("clone of the empty clone holds {} want clones of {}", fmt_ids(&s2), fmt_ids(&s))); }
                let n = elem::with_reg(|r| r.clones + r.zst_clones) - before;
                if n as usize != s.len() { out.fail(Class::Vec, "clone-count", format!("{n} Clone calls for {} elements", s.len())); }
                let _ = guarded(move || drop(c2));
            }
            Err(Caught::Injected) => out.faulted = true,
            Err(Caught::Panic(m)) => out.fail(Class::Vec, "clone-panicked", format!("clone() of a {}-backed vector with len {} cap {} panicked: {m}", MT::name(), e.len(), e.capacity())),
        }
    }
    // destroys them
    if let Err(x) = guarded(move || drop(e)) { if !matches!(x, Caught::Injected) { out.fail(Class::Own, "drop-panicked", format!("{x:?}")); } }
}

impl<T: Elem + SatisfyTraits<Tr>, M: MX, Tr: TrX + ?Sized> World<T, M, Tr> {
    pub fn do_clone(&mut self, then: u8, out: &mut Out) {
        let len = self.ma.len();
        let before = elem::with_reg(|r| { r.clone_src_n = 0; r.clones + r.zst_clones });
        let serial0 = crate::track::with_ts(|ts| ts.next_serial());
        let a = &self.a;
        let r = guarded(|| Tr::clone_vec(a));
        // the clone's elements are WRITTEN into its storage: the write accessor of that storage must have been asked for
        if matches!(M::KIND, crate::caps::BK::Track) && T::SIZE != 0 && len > 0 && r.is_ok() {
            let n = crate::track::with_ts(|ts| ts.as_mut_since(serial0));
            if n == 0 { out.fail(Class::Mem, "written-through-read-accessor", format!("clone() filled a new storage with {len} elements without ever calling its Mem::as_mut_ptr")); }
        }
        // a stateful builder is CLONED for the new vector (its Clone may hand out another arena), never duplicated bitwise
        if M::STATEFUL_BUILDER && r.is_ok() {
            let src_b = crate::track::builder_of(0);
            let end = crate::track::with_ts(|ts| ts.next_serial());
            for s in serial0..end { if crate::track::builder_of(s).is_some() && crate::track::builder_of(s) == src_b { out.fail(Class::Mem, "builder-not-cloned", format!("the clone's storage #{s} was built by the SOURCE's builder (identity {:?}): MemBuilder::clone was bypassed", src_b)); } }
        }
        // storage is requested once per vector: one clone() = one MemBuilder::build
        if matches!(M::KIND, crate::caps::BK::Track | crate::caps::BK::TrackFixed) && r.is_ok() {
            let built = crate::track::with_ts(|ts| ts.next_serial()) - serial0;
            if built != 1 { out.fail(Class::Mem, "storage-requested-twice", format!("one clone() asked its MemBuilder for {built} storages (want exactly 1)")); }
        }
        // `Clone` runs on the source's elements themselves (a bitwise stand-in is not the element: interior state, address)
        if T::SIZE != 0 && len > 0 {
            let base = self.a.downcast_ref::<T>().unwrap().as_ptr() as usize;
            let (lo, hi, n) = elem::with_reg(|r| (r.clone_src_min, r.clone_src_max, r.clone_src_n));
            if n > 0 && (lo < base || hi >= base + len * T::SIZE) { out.fail(Class::Vec, "clone-of-stand-in", format!("Clone was called on values at {lo:#x}..={hi:#x}, the source's elements live at {base:#x}+{}", len * T::SIZE)); }
        }
        let mut c = match r {
            Ok(c) => c,
            Err(Caught::Injected) => { out.faulted = true; return; }
            Err(Caught::Panic(m)) => { out.fail(Class::Vec, "clone-panicked", format!("clone() of a {}-backed vector with len {len} cap {} panicked: {m}", M::name(), self.a.capacity())); return; }
        };
        let n = elem::with_reg(|r| r.clones + r.zst_clones) - before;
        if n as usize != len { out.fail(Class::Vec, "clone-count", format!("{n} Clone calls for {len} elements")); }
        if c.element_typeid() != self.a.element_typeid() || c.element_layout() != self.a.element_layout() { out.fail(Class::Type, "clone-type", "clone reports a different element type / layout".into()); }
        if c.len() != len { out.fail(Class::Vec, "clone-len", format!("clone has len {}, source {len}", c.len())); }
        if c.capacity() < c.len() { out.fail(Class::Cap, "len-gt-cap", format!("clone len {} > capacity {}", c.len(), c.capacity())); }
        let mut mc: Vec<Mv> = self.ma.iter().map(|m| Mv::CloneOf(match m { Mv::Id(i) => *i, Mv::CloneOf(p) => *p })).collect();
        let sc = snap::<T, Tr, M>(&c);
        if !snap_matches::<T>(&sc, &mc) { out.fail(Class::Vec, "clone-seq", format!("clone holds {} want clones of {:?}", fmt_ids(&sc), self.ma)); }
        // separately owned storage
        if T::SIZE != 0 && len > 0 {
            let (pa, pc) = (self.a.as_bytes().as_ptr() as usize, c.as_bytes().as_ptr() as usize);
            let bytes = len * T::SIZE;
            if pa < pc + bytes && pc < pa + bytes { out.fail(Class::Mem, "clone-shares-storage", format!("clone storage {pc:#x} overlaps source storage {pa:#x}")); }
        }
        // pin the clone's model to the real ids, so that later comparisons are exact
        if T::SIZE != 0 && sc.len() == mc.len() { for (m, s) in mc.iter_mut().zip(&sc) { *m = Mv::Id(s.0); } }
        // follow-up on one side; the other side must not change
        let on_clone = then >= N_THEN;
        let t = then % N_THEN;
        if on_clone {
            let sa0 = snap::<T, Tr, M>(&self.a);
            follow_up::<T, Tr, M>(&mut c, &mut mc, t, out);
            if snap::<T, Tr, M>(&self.a) != sa0 { out.fail(Class::Vec, "not-independent", format!("operation {t} on the clone changed the source")); }
            let s = snap::<T, Tr, M>(&c);
            if !out.faulted && !snap_matches::<T>(&s, &mc) { out.fail(Class::Vec, "clone-follow-up-seq", format!("clone after operation {t}: {} want {:?}", fmt_ids(&s), mc)); }
        } else {
            let sc0 = snap::<T, Tr, M>(&c);
            let World { a, ma, .. } = self;
            follow_up::<T, Tr, M>(a, ma, t, out);
            if snap::<T, Tr, M>(&c) != sc0 { out.fail(Class::Vec, "not-independent", format!("operation {t} on the source changed the clone")); }
        }
        if let Err(x) = guarded(move || drop(c)) { if !matches!(x, Caught::Injected) { out.fail(Class::Own, "drop-panicked", format!("{x:?}")); } }
        out.outcome.push_str("ok");
    }

    /// `dst.clone_from(&a)` where `dst` currently holds another (possibly same-layout) element type or other contents;
    /// the result must be a clone of `a` in every respect, including how IT clones afterwards.
    pub fn do_clone_from(&mut self, kind: u8, then: u8, out: &mut Out) {
        let len = self.ma.len();
        crate::track::with_ts(|ts| ts.foreign = true);
        let built = guarded(|| Tr::foreign_vec::<T, M>(kind));
        crate::track::with_ts(|ts| ts.foreign = false);
        let mut d = match built {
            Ok(Some(d)) => d,
            Ok(None) => { out.outcome.push_str("skipped"); return; }
            Err(Caught::Injected) => { out.faulted = true; return; }
            // (constructions that must panic - N elements do not fit in SIZE bytes - are filtered out by `foreign_vec_impl`)
            Err(Caught::Panic(m)) => { out.fail(Class::Cap, "construction-panicked", format!("constructing an empty vector of another element type on {} panicked: {m}", M::name())); return; }
        };
        if !M::RESIZABLE && d.capacity() < len { out.outcome.push_str("skipped-room"); let _ = guarded(move || drop(d)); return; }
        let before = elem::with_reg(|r| r.clones + r.zst_clones);
        let a = &self.a;
        match guarded(|| Tr::clone_from_vec(&mut d, a)) {
            Ok(()) => {}
            Err(Caught::Injected) => { out.faulted = true; return; }
            Err(Caught::Panic(m)) => { out.fail(Class::Vec, "clone-panicked", format!("clone_from into a {}-backed vector (destination kind {kind}) panicked: {m}", M::name())); return; }
        }
        let n = elem::with_reg(|r| r.clones + r.zst_clones) - before;
        if n as usize != len { out.fail(Class::Vec, "clone-count", format!("clone_from: {n} Clone calls for {len} elements")); }
        if d.element_typeid() != TypeId::of::<T>() || d.element_layout() != Layout::new::<T>() { out.fail(Class::Type, "clone-type", "clone_from result reports a different element type / layout".into()); }
        if d.len() != len { out.fail(Class::Vec, "clone-len", format!("clone_from result has len {}, source {len}", d.len())); }
        if d.capacity() < d.len() { out.fail(Class::Cap, "len-gt-cap", format!("clone_from result len {} > capacity {}", d.len(), d.capacity())); }
        if d.downcast_ref::<T>().is_none() { out.fail(Class::Type, "clone-type", "clone_from result does not downcast to the source's element type".into()); let _ = guarded(move || core::mem::forget(d)); return; }
        let mut md: Vec<Mv> = self.ma.iter().map(|m| Mv::CloneOf(match m { Mv::Id(i) => *i, Mv::CloneOf(p) => *p })).collect();
        md.reserve(4);
        let sd = snap::<T, Tr, M>(&d);
        if !snap_matches::<T>(&sd, &md) { out.fail(Class::Vec, "clone-seq", format!("clone_from result holds {} want clones of {:?}", fmt_ids(&sd), self.ma)); }
        if T::SIZE != 0 && len > 0 && d.len() == len {
            let (pa, pd) = (self.a.as_bytes().as_ptr() as usize, d.as_bytes().as_ptr() as usize);
            let bytes = len * T::SIZE;
            if pa < pd + bytes && pd < pa + bytes { out.fail(Class::Mem, "clone-shares-storage", format!("clone_from storage {pd:#x} overlaps source storage {pa:#x}")); }
        }
        if T::SIZE != 0 && sd.len() == md.len() { for (m, s) in md.iter_mut().zip(&sd) { *m = Mv::Id(s.0); } }
        // the result clones like the source does
        if out.fails.is_empty() {
            let before = elem::with_reg(|r| r.clones + r.zst_clones);
            match guarded(|| Tr::clone_vec(&d)) {
                Ok(c2) => {
                    let n = elem::with_reg(|r| r.clones + r.zst_clones) - before;
                    if n as usize != d.len() { out.fail(Class::Vec, "clone-count", format!("clone() of a clone_from result: {n} Clone calls for {} elements", d.len())); }
                    let s2 = snap::<T, Tr, M>(&c2);
                    let want: Vec<Mv> = sd.iter().map(|(id, _)| Mv::CloneOf(*id)).collect();
                    if !snap_matches::<T>(&s2, &want) { out.fail(Class::Vec, "clone-seq", format!("clone() of a clone_from result holds {} want clones of {}", fmt_ids(&s2), fmt_ids(&sd))); }
                    if c2.element_typeid() != TypeId::of::<T>() { out.fail(Class::Type, "clone-type", "clone() of a clone_from result reports another element type".into()); }
                    let _ = guarded(move || drop(c2));
                }
                Err(Caught::Injected) => out.faulted = true,
                Err(Caught::Panic(m)) => out.fail(Class::Vec, "clone-panicked", format!("clone() of a clone_from result panicked: {m}")),
            }
        }
        // independence
        let sa0 = snap::<T, Tr, M>(&self.a);
        follow_up::<T, Tr, M>(&mut d, &mut md, then, out);
        if snap::<T, Tr, M>(&self.a) != sa0 { out.fail(Class::Vec, "not-independent", format!("operation {then} on the clone_from result changed the source")); }
        let s = snap::<T, Tr, M>(&d);
        if !out.faulted && !snap_matches::<T>(&s, &md) { out.fail(Class::Vec, "clone-follow-up-seq", format!("clone_from result after operation {then}: {} want {:?}", fmt_ids(&s), md)); }
        if let Err(x) = guarded(move || drop(d)) { if !matches!(x, Caught::Injected) { out.fail(Class::Own, "drop-panicked", format!("{x:?}")); } }
        out.outcome.push_str("ok");
    }

    pub fn do_clone_empty(&mut self, then: u8, out: &mut Out) {
        let a = &self.a;
        match guarded(|| a.clone_empty()) {
            Ok(e) => { exercise_empty::<T, Tr, M, M>(&self.a, &self.ma, e, then, out); out.outcome.push_str("ok"); }
            Err(Caught::Injected) => out.faulted = true,
            Err(Caught::Panic(m)) => out.fail(Class::Vec, "clone-empty-panicked", format!("clone_empty panicked: {m}")),
        }
    }

    pub fn do_clone_empty_in(&mut self, target: u8, then: u8, out: &mut Out) {
        let a = &self.a;
        // inline targets with over-aligned elements (C12 known finding): the empty prototype is built and used as a prototype only
        macro_rules! proto_only { ($mt:ty, $mk:expr) => {{
            match guarded(|| a.clone_empty_in($mk)) {
                Ok(e) => {
                    if e.element_typeid() != TypeId::of::<T>() || e.element_layout() != Layout::new::<T>() { out.fail(Class::Type, "empty-clone-layout", format!("clone_empty_in({}) reports layout {:?}", <$mt as MX>::name(), e.element_layout())); }
                    hop::<T, Tr, $mt>(&e, out);
                    let _ = guarded(move || drop(e));
                    out.outcome.push_str("proto-only");
                }
                Err(Caught::Injected) => out.faulted = true,
                Err(Caught::Panic(m)) => out.fail(Class::Vec, "clone-empty-panicked", format!("clone_empty_in({}) panicked: {m}", <$mt as MX>::name())),
            }
        }} }
        macro_rules! go { ($mt:ty, $mk:expr) => {{
            match guarded(|| a.clone_empty_in($mk)) {
                Ok(e) => { exercise_empty::<T, Tr, M, $mt>(&self.a, &self.ma, e, then, out); out.outcome.push_str("ok"); }
                Err(Caught::Injected) => out.faulted = true,
                Err(Caught::Panic(m)) => out.fail(Class::Vec, "clone-empty-panicked", format!("clone_empty_in({}) panicked: {m}", <$mt as MX>::name())),
            }
        }} }
        match target {
            #[cfg(feature = "alloc")]
            0 => go!(any_vec::mem::Heap, any_vec::mem::Heap),
            // inline storage is only byte-aligned by construction: use it for element alignment <= 8 (see C12)
            1 => if T::ALIGN <= 8 { go!(Stack<512>, Stack::<512>) } else { proto_only!(Stack<512>, Stack::<512>) },
            2 => if T::ALIGN <= 8 { go!(StackN<2, 512>, StackN::<2, 512>) } else { proto_only!(StackN<2, 512>, StackN::<2, 512>) },
            3 => go!(Track, Track),
            4 => go!(TrackFixed<2>, TrackFixed::<2>),
            // zero-capacity fixed backends: an empty vector always fits
            5 => if T::ALIGN <= 8 { go!(Stack<0>, Stack::<0>) } else { proto_only!(Stack<0>, Stack::<0>) },
            6 => if T::ALIGN <= 8 { go!(StackN<0, 0>, StackN::<0, 0>) } else { proto_only!(StackN<0, 0>, StackN::<0, 0>) },
            7 => go!(any_vec::mem::Empty, any_vec::mem::Empty),
            _ => out.outcome.push_str("skipped"),
        }
    }
}
