//! Huge-vector edges: one vector of `HUGE` (> 2^16) elements built in the registry's untracked bulk mode (identity = creation
//! counter mod 199, so the whole sequence stays checkable), ONE operation on it, full comparison against a `Vec<u16>` model.
//! Reaches what the (len, cap) state space cannot: counts and byte sizes beyond 16 bits (a truncated count, a "large input" path).

use any_vec::any_value::{AnyValue, AnyValueWrapper};
use any_vec::SatisfyTraits;

use crate::caps::{TrX, BK, MX};
use crate::elem::{self, Elem};
use crate::exec::{guarded, Caught, Out, World};
use crate::types::*;

pub const HUGE: usize = 70_000;
pub const N_HUGE_OPS: u8 = 16;

/// the identity the next `T::fresh()` will get in bulk mode
fn next_bulk() -> u16 { elem::with_reg(|r| (r.bulk_counter % 199) as u16) }
fn bulk_ids(from: u16, n: usize) -> impl Iterator<Item = u16> { (0..n).map(move |k| ((from as usize + k) % 199) as u16) }

impl<T: Elem + SatisfyTraits<Tr>, M: MX, Tr: TrX + ?Sized> World<T, M, Tr> {
    pub fn do_huge(&mut self, op: u8, out: &mut Out) {
        if !M::RESIZABLE || !M::AMORTISED || T::SIZE == 0 || !self.ma.is_empty() { out.outcome.push_str("n/a"); return; }
        if op == 11 && !Tr::CLONEABLE { out.outcome.push_str("n/a"); return; }
        elem::with_reg(|r| { r.untracked = true; r.bulk_counter = 0; });
        let n = HUGE;
        let mut model: Vec<u16> = { let _w = elem::WindowOff::new(); let mut m = Vec::with_capacity(2 * n + 8); m.extend(bulk_ids(0, n)); m };
        let mut taken: Vec<(u16, u16)> = { let _w = elem::WindowOff::new(); Vec::with_capacity(16) }; // (got, want) of removed / yielded values
        let mut notes: Vec<(Class, &'static str, String)> = { let _w = elem::WindowOff::new(); Vec::with_capacity(8) };
        let a = &mut self.a;
        let r = guarded(|| {
            { let mut t = a.downcast_mut::<T>().unwrap(); for _ in 0..n { t.push(T::fresh()); } }
            let c0 = next_bulk();
            match op {
                // C01: shifting operations over > 2^16 elements
                0 => { let v = T::fresh(); model.insert(1, v.id()); a.insert(1, AnyValueWrapper::new(v)); }
                1 => { let v = T::fresh(); model.insert(n - 1, v.id()); a.downcast_mut::<T>().unwrap().insert(n - 1, v); }
                2 => { let want = model.remove(1); let h = a.remove(1); taken.push((h.downcast_ref::<T>().unwrap().id(), want)); drop(h); }
                3 => { let want = model.remove(n - 2); let v = a.downcast_mut::<T>().unwrap().remove(n - 2); taken.push((v.id(), want)); }
                4 => { let want = model.swap_remove(0); let h = a.swap_remove(0); taken.push((h.downcast::<T>().unwrap().id(), want)); }
                5 => { let v = T::fresh(); model.insert(n / 2, v.id()); a.insert(n / 2, AnyValueWrapper::new(v)); let want = model.pop().unwrap(); let h = a.pop().unwrap(); taken.push((h.downcast_ref::<T>().unwrap().id(), want)); drop(h); }
                // C02: ranges of / replacements with > 2^16 elements
                6 => { model.drain(1..n - 1); let d = a.drain(1..n - 1); if d.len() != n - 2 { notes.push((Class::Iter, "huge-len", format!("drain(1..{}) reports len {}", n - 1, d.len()))); } drop(d); }
                7 => {
                    let m: Vec<u16> = { let _w = elem::WindowOff::new(); model.drain(0..n / 2).collect() };
                    let mut t = a.downcast_mut::<T>().unwrap();
                    let mut d = t.drain(0..n / 2);
                    for k in 0..2 { let v = d.next().unwrap(); taken.push((v.id(), m[k])); }
                    for k in 0..2 { let v = d.next_back().unwrap(); taken.push((v.id(), m[m.len() - 1 - k])); }
                    if d.len() != n / 2 - 4 { notes.push((Class::Iter, "huge-len", format!("typed drain reports len {} after 4 items of {}", d.len(), n / 2))); }
                    drop(d);
                }
                8 => { { let _w = elem::WindowOff::new(); let ins: Vec<u16> = bulk_ids(c0, n).collect(); model.splice(1..1, ins); } let d = a.splice(1..1, (0..n).map(|_| AnyValueWrapper::new(T::fresh()))); drop(d); }
                9 => {
                    let want: Vec<u16> = { let _w = elem::WindowOff::new(); let ins: Vec<u16> = bulk_ids(c0, n).collect(); model.splice(n / 2..n / 2 + 3, ins).collect() };
                    let mut t = a.downcast_mut::<T>().unwrap();
                    let mut d = t.splice(n / 2..n / 2 + 3, (0..n).map(|_| T::fresh()));
                    let v = d.next().unwrap(); taken.push((v.id(), want[0]));
                    drop(d);
                }
                10 => { { let _w = elem::WindowOff::new(); let ins: Vec<u16> = bulk_ids(c0, 5).collect(); model.splice(0..n, ins); } let d = a.splice(0..n, (0..5).map(|_| AnyValueWrapper::new(T::fresh()))); drop(d); }
                // C08: clone of > 2^16 elements (bulk mode: a clone keeps the identity)
                11 => {
                    let before = elem::with_reg(|r| r.clones);
                    let c = Tr::clone_vec(&*a);
                    let made = elem::with_reg(|r| r.clones) - before;
                    if made as usize != n { notes.push((Class::Vec, "clone-count", format!("{made} Clone calls for {n} elements"))); }
                    let ok = { let t = c.downcast_ref::<T>().unwrap(); let s = t.as_slice(); s.len() == n && s.iter().zip(model.iter()).all(|(e, m)| e.id() == *m && e.intact()) };
                    if !ok { notes.push((Class::Vec, "clone-seq", format!("clone of {n} elements differs from the source"))); }
                    drop(c);
                }
                // C10: capacity calls on a huge vector
                12 | 13 => {
                    { let mut t = a.downcast_mut::<T>().unwrap(); for _ in 0..n / 2 { let v = t.pop().unwrap(); std::mem::forget(v); } }
                    model.truncate(n - n / 2);
                    let (len, cap) = (a.len(), a.capacity());
                    if op == 12 { M::cap_call(a, CapCall::ShrinkToFit, 0); } else { let mut t = a.downcast_mut::<T>().unwrap(); M::cap_call_typed(&mut *t, CapCall::ShrinkTo, len + 1); }
                    let want = if op == 12 { len } else { len + 1 };
                    let cap2 = a.capacity();
                    if cap2 > cap { notes.push((Class::Cap, "shrink-grew", format!("shrink on len {len} cap {cap} increased capacity to {cap2}"))); }
                    if cap2 < len { notes.push((Class::Cap, "shrink-too-far", format!("shrink on len {len} left capacity {cap2}"))); }
                    if M::KIND == BK::Heap && cap2 != want.min(cap) { notes.push((Class::Cap, "shrink-not-exact", format!("shrink on len {len} cap {cap} (Heap) left capacity {cap2}, want {}", want.min(cap)))); }
                    M::cap_call(a, CapCall::Reserve, cap2 - len + 1);
                    if a.capacity() < cap2 + 1 { notes.push((Class::Cap, "reserve-too-small", format!("reserve({}) on len {len} gave capacity {}", cap2 - len + 1, a.capacity()))); }
                }
                // C14: iterators over > 2^16 elements
                14 => {
                    let mut it = a.iter();
                    if it.len() != n || it.size_hint() != (n, Some(n)) { notes.push((Class::Iter, "huge-len", format!("iter() over {n} elements reports len {} / {:?}", it.len(), it.size_hint()))); }
                    let x = it.nth(65_536).map(|e| e.downcast_ref::<T>().unwrap().id());
                    if x != Some(model[65_536]) { notes.push((Class::Iter, "wrong-item", format!("iter().nth(65536) gives {x:?}, want {}", model[65_536]))); }
                    let y = it.next_back().map(|e| e.downcast_ref::<T>().unwrap().id());
                    if y != Some(model[n - 1]) { notes.push((Class::Iter, "wrong-item", format!("next_back() gives {y:?}, want {}", model[n - 1]))); }
                    if it.len() != n - 65_537 - 1 { notes.push((Class::Iter, "huge-len", format!("len after nth(65536) and one next_back is {}", it.len()))); }
                }
                _ => {
                    let mut d = a.drain(..);
                    if d.len() != n { notes.push((Class::Iter, "huge-len", format!("drain(..) over {n} elements reports len {}", d.len()))); }
                    let y = d.nth_back(65_536).map(|e| e.downcast_ref::<T>().unwrap().id());
                    if y != Some(model[n - 1 - 65_536]) { notes.push((Class::Iter, "wrong-item", format!("drain(..).nth_back(65536) gives {y:?}, want {}", model[n - 1 - 65_536]))); }
                    if d.len() != n - 65_537 { notes.push((Class::Iter, "huge-len", format!("len after nth_back(65536) is {}", d.len()))); }
                    drop(d);
                    model.clear();
                }
            }
        });
        for (class, kind, detail) in notes.drain(..) { out.fail(class, kind, detail); }
        match r {
            Err(Caught::Injected) => out.faulted = true,
            Err(Caught::Panic(m)) => { out.fail(Class::Vec, "unexpected-panic", format!("huge-vector operation {op} panicked: {m}")); out.faulted = true; }
            Ok(()) => {
                for (got, want) in &taken { if got != want { out.fail(Class::Vec, "wrong-element", format!("huge-vector operation {op} handed out id {got}, want {want}")); } }
                let (ok_len, first_bad) = {
                    let t = self.a.downcast_ref::<T>().unwrap();
                    let s = t.as_slice();
                    (s.len() == model.len(), s.iter().zip(model.iter()).position(|(e, m)| e.id() != *m || !e.intact()))
                };
                if !ok_len { out.fail(Class::Vec, "len-mismatch", format!("after huge-vector operation {op}: len {} want {}", self.a.len(), model.len())); }
                if let Some(i) = first_bad { out.fail(Class::Vec, "seq-mismatch", format!("after huge-vector operation {op}: first difference from Vec at index {i}")); }
                if self.a.len() > self.a.capacity() { out.fail(Class::Cap, "len-gt-cap", format!("len {} > capacity {}", self.a.len(), self.a.capacity())); }
                out.outcome.push_str("ok");
            }
        }
        // remove the bulk values again (untracked)
        let _ = guarded(|| { let mut t = self.a.downcast_mut::<T>().unwrap(); while let Some(v) = t.pop() { std::mem::forget(v); } });
        { let _w = elem::WindowOff::new(); drop(model); drop(taken); }
        elem::with_reg(|r| { r.untracked = false; });
        if out.faulted { out.leak_ok = true; }
    }
}
