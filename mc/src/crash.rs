//! Crash containment: a fatal signal inside an edge (wild pointer of a broken subject, abort from a panic while
//! unwinding, ...) is turned into a marker line naming the edge, so that the dispatcher can report it as a
//! violation with a replay instead of a bare child death (which would be a machinery failure).

use std::cell::UnsafeCell;
use std::sync::atomic::{AtomicU64, AtomicUsize, Ordering};

const CAP: usize = 1024;
struct Buf(UnsafeCell<[u8; CAP]>);
unsafe impl Sync for Buf {}
static CUR: Buf = Buf(UnsafeCell::new([0; CAP]));
static CUR_LEN: AtomicUsize = AtomicUsize::new(0);
/// start of the current edge (process CPU ms), for the watchdog
static CUR_START: AtomicU64 = AtomicU64::new(0);
/// a single edge may not burn more CPU time than this: a broken subject can turn an iterator into an endless loop
pub const EDGE_LIMIT_MS: u64 = 60_000;

/// CPU time consumed by this process (not wall time: a frozen or starved process - e.g. while the sandbox is being
/// snapshotted - must not look like an endless loop)
fn now_ms() -> u64 { unsafe { let mut ts: libc::timespec = std::mem::zeroed(); libc::clock_gettime(libc::CLOCK_PROCESS_CPUTIME_ID, &mut ts); ts.tv_sec as u64 * 1000 + ts.tv_nsec as u64 / 1_000_000 } }

/// remember what is being executed (called before every edge)
pub fn set_current(s: &str) {
    let b = s.as_bytes();
    let n = b.len().min(CAP);
    CUR_LEN.store(0, Ordering::SeqCst);
    unsafe { (&mut *CUR.0.get())[..n].copy_from_slice(&b[..n]); }
    CUR_START.store(now_ms(), Ordering::SeqCst);
    CUR_LEN.store(n, Ordering::SeqCst);
}
pub fn clear_current() { CUR_LEN.store(0, Ordering::SeqCst); }

extern "C" fn on_signal(sig: libc::c_int) {
    unsafe {
        let name: &[u8] = match sig { libc::SIGSEGV => b"SIGSEGV", libc::SIGBUS => b"SIGBUS", libc::SIGILL => b"SIGILL", libc::SIGABRT => b"SIGABRT", libc::SIGFPE => b"SIGFPE", _ => b"SIGNAL" };
        let n = CUR_LEN.load(Ordering::SeqCst);
        let head: &[u8] = if n > 0 { b"\nCRASH " } else { b"\nCRASH-OUTSIDE-EDGE " };
        libc::write(2, head.as_ptr() as *const libc::c_void, head.len());
        libc::write(2, name.as_ptr() as *const libc::c_void, name.len());
        libc::write(2, b" ".as_ptr() as *const libc::c_void, 1);
        libc::write(2, (*CUR.0.get()).as_ptr() as *const libc::c_void, n);
        libc::write(2, b"\n".as_ptr() as *const libc::c_void, 1);
        libc::_exit(if n > 0 { 77 } else { 78 });
    }
}

pub fn install() {
    let _ = now_ms();
    // watchdog: an edge that does not come back is reported like a crash (exit 77 with a marker naming the edge)
    std::thread::spawn(|| loop {
        std::thread::sleep(std::time::Duration::from_millis(500));
        let n = CUR_LEN.load(Ordering::SeqCst);
        if n > 0 && now_ms().saturating_sub(CUR_START.load(Ordering::SeqCst)) > EDGE_LIMIT_MS {
            unsafe {
                let head = b"\nCRASH TIMEOUT ";
                libc::write(2, head.as_ptr() as *const libc::c_void, head.len());
                libc::write(2, (*CUR.0.get()).as_ptr() as *const libc::c_void, n);
                libc::write(2, b"\n".as_ptr() as *const libc::c_void, 1);
                libc::_exit(77);
            }
        }
    });
    unsafe {
        // alternate stack so that a stack overflow can still be reported
        let sz = 1 << 16;
        let stack = libc::mmap(std::ptr::null_mut(), sz, libc::PROT_READ | libc::PROT_WRITE, libc::MAP_PRIVATE | libc::MAP_ANONYMOUS, -1, 0);
        let ss = libc::stack_t { ss_sp: stack, ss_flags: 0, ss_size: sz };
        libc::sigaltstack(&ss, std::ptr::null_mut());
        for sig in [libc::SIGSEGV, libc::SIGBUS, libc::SIGILL, libc::SIGABRT, libc::SIGFPE] {
            let mut sa: libc::sigaction = std::mem::zeroed();
            sa.sa_sigaction = on_signal as usize;
            sa.sa_flags = libc::SA_ONSTACK;
            libc::sigemptyset(&mut sa.sa_mask);
            libc::sigaction(sig, &sa, std::ptr::null_mut());
        }
    }
}
