//! Crash containment: a fatal signal inside an edge (wild pointer of a broken subject, abort from a panic while
//! unwinding, ...) is turned into a marker line naming the edge, so that the dispatcher can report it as a
//! violation with a replay instead of a bare child death (which would be a machinery failure).

use std::cell::UnsafeCell;
use std::sync::atomic::{AtomicUsize, Ordering};

const CAP: usize = 1024;
struct Buf(UnsafeCell<[u8; CAP]>);
unsafe impl Sync for Buf {}
static CUR: Buf = Buf(UnsafeCell::new([0; CAP]));
static CUR_LEN: AtomicUsize = AtomicUsize::new(0);

/// remember what is being executed (called before every edge)
pub fn set_current(s: &str) {
    let b = s.as_bytes();
    let n = b.len().min(CAP);
    CUR_LEN.store(0, Ordering::SeqCst);
    unsafe { (&mut *CUR.0.get())[..n].copy_from_slice(&b[..n]); }
    CUR_LEN.store(n, Ordering::SeqCst);
}
pub fn clear_current() { CUR_LEN.store(0, Ordering::SeqCst); }

extern "C" fn on_signal(sig: libc::c_int) {
    unsafe {
        let name: &[u8] = match sig { libc::SIGSEGV => b"SIGSEGV", libc::SIGBUS => b"SIGBUS", libc::SIGILL => b"SIGILL", libc::SIGABRT => b"SIGABRT", libc::SIGFPE => b"SIGFPE", _ => b"SIGNAL" };
        let n = CUR_LEN.load(Ordering::SeqCst);
        let head: &[u8] = if n > 0 { b"\nCRASH " } else { b"\nCRASH-OUTSIDE-EDGE " };
        libc::write(2, head.as_ptr() as *const libc::c_void, head.len());
        libc::write(2, name.as_ptr() as *const libc::c_void, name.len());
        libc::write(2, b" ".as_ptr() as *const libc::c_void, 1);
        libc::write(2, (*CUR.0.get()).as_ptr() as *const libc::c_void, n);
        libc::write(2, b"\n".as_ptr() as *const libc::c_void, 1);
        libc::_exit(if n > 0 { 77 } else { 78 });
    }
}

pub fn install() {
    unsafe {
        // alternate stack so that a stack overflow can still be reported
        let sz = 1 << 16;
        let stack = libc::mmap(std::ptr::null_mut(), sz, libc::PROT_READ | libc::PROT_WRITE, libc::MAP_PRIVATE | libc::MAP_ANONYMOUS, -1, 0);
        let ss = libc::stack_t { ss_sp: stack, ss_flags: 0, ss_size: sz };
        libc::sigaltstack(&ss, std::ptr::null_mut());
        for sig in [libc::SIGSEGV, libc::SIGBUS, libc::SIGILL, libc::SIGABRT, libc::SIGFPE] {
            let mut sa: libc::sigaction = std::mem::zeroed();
            sa.sa_sigaction = on_signal as usize;
            sa.sa_flags = libc::SA_ONSTACK;
            libc::sigemptyset(&mut sa.sa_mask);
            libc::sigaction(sig, &sa, std::ptr::null_mut());
        }
    }
}
