//! Raw parts round trips (C17) and byte / slice views, alignment and placement (C12).

use std::alloc::Layout;
use std::any::TypeId;
use std::mem::{size_of, MaybeUninit};

use any_vec::{AnyVec, SatisfyTraits};

use crate::caps::{TrX, MX};
use crate::elem::{self, Elem};
use crate::exec::{guarded, snap, snap_matches, Caught, Out, World};
use crate::types::*;

pub const N_RAW_VARIANTS: u8 = 5;
pub const N_BYTES_VARIANTS: u8 = 6;

/// what `into_raw_parts` must report
#[derive(Clone, Copy, Debug)]
pub struct PartsWant { pub len: usize, pub cap: usize, pub layout: Layout, pub tid: TypeId, pub has_drop: bool }

/// what it reported (twice when the parts were cloned)
#[derive(Clone, Copy, Debug, PartialEq)]
pub struct PartsSeen { pub len: usize, pub cap: usize, pub layout: Layout, pub tid: TypeId, pub has_drop: bool }

impl PartsSeen {
    pub fn check(&self, w: &PartsWant, what: &str, fails: &mut Vec<Fail>) {
        let _w = elem::WindowOff::new(); // harness allocations (messages) stay outside the library window
        let mut f = |kind: &'static str, d: String| fails.push(Fail { class: Class::Vec, kind, detail: format!("{what}: {d}") });
        if self.len != w.len { f("parts-len", format!("len {} (vector had {})", self.len, w.len)); }
        if self.cap != w.cap { f("parts-capacity", format!("capacity {} (vector had {})", self.cap, w.cap)); }
        if self.layout != w.layout { f("parts-layout", format!("element_layout {:?} (want {:?})", self.layout, w.layout)); }
        if self.tid != w.tid { f("parts-typeid", "element_typeid is not the element type".into()); }
        if self.has_drop != w.has_drop { f("parts-drop", format!("element_drop present: {} (needs_drop: {})", self.has_drop, w.has_drop)); }
    }
}

/// the inline byte-array storage of Stack / StackN cannot be aligned for element alignment > 8 (a known finding has exactly
/// this kind); any other misalignment is a different signature
fn misaligned_kind<T: Elem, M: MX>() -> &'static str {
    if matches!(M::KIND, crate::caps::BK::Stack | crate::caps::BK::StackN) && T::ALIGN > 8 { "inline-storage-misaligned(elem-align>8)" } else { "storage-misaligned" }
}

impl<T: Elem + SatisfyTraits<Tr>, M: MX, Tr: TrX + ?Sized> World<T, M, Tr> {
    /// C17: variant 0 = round trip, 1 = twice, 2 = rebuild from a field-wise clone of the parts, 3 = clone inspected, original rebuilt
    pub fn do_raw_parts(&mut self, variant: u8, then: u8, out: &mut Out) {
        if !M::RAWPARTS { out.outcome.push_str("n/a"); return; }
        let want = PartsWant { len: self.a.len(), cap: self.a.capacity(), layout: Layout::new::<T>(), tid: TypeId::of::<T>(), has_drop: std::mem::needs_drop::<T>() };
        let before = elem::with_reg(|r| (r.creates, r.clones, r.drops, r.zst_drops, r.zst_clones));
        let ev0 = crate::galloc::with_as(|st| st.allocs + st.reallocs + st.deallocs);
        let dummy = elem::lib(|| AnyVec::<Tr, M>::new_in::<T>(M::make()));
        let a = std::mem::replace(&mut self.a, dummy);
        let mut fails = Vec::new();
        let fr = &mut fails;
        let r = guarded(move || M::raw_roundtrip::<T, Tr>(a, variant, &want, fr));
        out.fails.append(&mut fails);
        match r {
            Err(Caught::Injected) => { out.faulted = true; return; }
            Err(Caught::Panic(m)) => { out.fail(Class::Vec, "unexpected-panic", format!("raw parts round trip panicked: {m}")); out.faulted = true; return; }
            Ok(v) => { let d = std::mem::replace(&mut self.a, v); let _ = guarded(move || drop(d)); }
        }
        let after = elem::with_reg(|r| (r.creates, r.clones, r.drops, r.zst_drops, r.zst_clones));
        let ev1 = crate::galloc::with_as(|st| st.allocs + st.reallocs + st.deallocs);
        if after != before { out.fail(Class::Own, "parts-touched-elements", format!("decomposing / rebuilding created, cloned or destroyed elements: {before:?} -> {after:?}")); }
        if ev1 != ev0 { out.fail(Class::Alloc, "parts-touched-heap", format!("decomposing / rebuilding performed {} allocator call(s)", ev1 - ev0)); }
        if self.a.len() != want.len || self.a.capacity() != want.cap { out.fail(Class::Vec, "rebuilt-shape", format!("rebuilt vector has len {} cap {} (was len {} cap {})", self.a.len(), self.a.capacity(), want.len, want.cap)); }
        if self.a.element_typeid() != want.tid || self.a.element_layout() != want.layout { out.fail(Class::Type, "rebuilt-type", "rebuilt vector reports a different element type / layout".into()); }
        let s = snap::<T, Tr, M>(&self.a);
        if !snap_matches::<T>(&s, &self.ma) { out.fail(Class::Vec, "rebuilt-seq", "rebuilt vector holds different elements".into()); return; }
        // indistinguishable under further operations (incl. clone for cloneable sets)
        crate::exec_clone::follow_up_pub::<T, Tr, M>(&mut self.a, &mut self.ma, then, out);
        if Tr::CLONEABLE && !out.faulted {
            let a = &self.a;
            match guarded(|| Tr::clone_vec(a)) {
                Ok(c) => {
                    let sc = snap::<T, Tr, M>(&c);
                    let wantc: Vec<Mv> = snap::<T, Tr, M>(&self.a).iter().map(|(id, _)| Mv::CloneOf(*id)).collect();
                    if !snap_matches::<T>(&sc, &wantc) { out.fail(Class::Vec, "rebuilt-clone", "clone() of the rebuilt vector does not hold clones of its elements (clone function lost?)".into()); }
                    let _ = guarded(move || drop(c));
                }
                Err(Caught::Injected) => out.faulted = true,
                Err(Caught::Panic(m)) => out.fail(Class::Vec, "unexpected-panic", format!("clone of the rebuilt vector panicked: {m}")),
            }
        }
        out.outcome.push_str("ok");
    }

    /// C12: byte and slice views
    pub fn do_bytes(&mut self, variant: u8, k: usize, out: &mut Out) {
        let len = self.ma.len();
        let cap = self.a.capacity();
        let sz = size_of::<T>();
        let base = self.a.downcast_ref::<T>().unwrap().as_ptr() as usize;
        if base % T::ALIGN != 0 { out.fail(Class::Mem, misaligned_kind::<T, M>(), format!("storage pointer {base:#x} is not aligned to {} (len {len}, cap {cap})", T::ALIGN)); return; }
        // inline (stack) storage lies inside the vector object: capacity x size bytes from the storage pointer must fit in it
        if matches!(M::KIND, crate::caps::BK::Stack | crate::caps::BK::StackN) && sz != 0 {
            let (lo, hi) = (&self.a as *const _ as usize, &self.a as *const _ as usize + size_of::<AnyVec<Tr, M>>());
            if base < lo || base.saturating_add(cap.saturating_mul(sz)) > hi { out.fail(Class::Mem, "inline-storage-overrun", format!("capacity {cap} x {sz} bytes from the storage pointer does not fit inside the {}-byte vector object", hi - lo)); return; }
        }
        let a = &mut self.a;
        match variant {
            0 | 1 => {
                let (p, n) = if variant == 0 { let b = a.as_bytes(); (b.as_ptr() as usize, b.len()) } else { let b = a.as_bytes_mut(); (b.as_ptr() as usize, b.len()) };
                if p != base { out.fail(Class::Vec, "bytes-start", format!("as_bytes{} starts at {p:#x}, storage base is {base:#x}", if variant == 1 { "_mut" } else { "" })); return; }
                if n != len * sz { out.fail(Class::Vec, "bytes-len", format!("as_bytes{} has {n} bytes for {len} elements of {sz} bytes", if variant == 1 { "_mut" } else { "" })); return; }
                let b = a.as_bytes();
                for i in 0..len {
                    let eb = &b[i * sz..(i + 1) * sz];
                    let id = elem::id_of_bytes(eb);
                    if sz != 0 && (!elem::bytes_intact(eb) || !crate::exec::mv_match(self.ma[i], id)) { out.fail(Class::Vec, "bytes-content", format!("bytes of element {i} show id {id}, model {:?}", self.ma[i])); }
                }
            }
            2 => {
                let s = a.spare_bytes_mut();
                let (p, n) = (s.as_ptr() as usize, s.len());
                let want_n = if sz == 0 { 0 } else { (cap - len) * sz };
                if p != base + len * sz { out.fail(Class::Vec, "spare-bytes-start", format!("spare_bytes_mut starts {} bytes into the storage, initialised elements end at {} (len {len} x {sz} bytes)", p.wrapping_sub(base), len * sz)); }
                if n != want_n { out.fail(Class::Vec, "spare-bytes-len", format!("spare_bytes_mut has {n} bytes, want (cap {cap} - len {len}) x {sz} = {want_n}")); }
            }
            3 => {
                let mut t = a.downcast_mut::<T>().unwrap();
                let (sp, sn) = { let s = t.spare_capacity_mut(); (s.as_ptr() as usize, s.len()) };
                if sp != base + len * sz { out.fail(Class::Vec, "spare-capacity-start", format!("spare_capacity_mut starts {} bytes into the storage, want {}", sp.wrapping_sub(base), len * sz)); }
                if sn != cap - len { out.fail(Class::Vec, "spare-capacity-len", format!("spare_capacity_mut has {sn} slots, want {}", cap - len)); }
                let (p1, n1) = { let s = t.as_slice(); (s.as_ptr() as usize, s.len()) };
                let (p2, n2) = { let s = t.as_mut_slice(); (s.as_ptr() as usize, s.len()) };
                let p3 = t.as_mut_ptr() as usize;
                if p1 != base || p2 != base || p3 != base || n1 != len || n2 != len { out.fail(Class::Vec, "typed-views-alias", format!("typed views do not alias the storage: as_slice {p1:#x}/{n1}, as_mut_slice {p2:#x}/{n2}, as_mut_ptr {p3:#x}, base {base:#x}/{len}")); }
            }
            4 | 5 => {
                // write k values into spare capacity, then set_len
                let k = k.min(cap - len);
                if k == 0 { out.outcome.push_str("n/a"); return; }
                let mut vals: Vec<T> = Vec::with_capacity(k);
                for _ in 0..k { vals.push(T::fresh()); }
                let ids: Vec<Mv> = vals.iter().map(|v| Mv::Id(v.id())).collect();
                let r = guarded(|| unsafe {
                    if variant == 4 {
                        let spare = a.spare_bytes_mut();
                        let want_at = base + len * sz;
                        if spare.as_ptr() as usize != want_at || spare.len() < k * sz { return Err(format!("spare_bytes_mut covers {:#x}+{} but the spare capacity is at {want_at:#x} ({} bytes needed)", spare.as_ptr() as usize, spare.len(), k * sz)); }
                        for (i, v) in vals.drain(..).enumerate() {
                            let src = std::slice::from_raw_parts(&v as *const T as *const MaybeUninit<u8>, sz);
                            spare[i * sz..(i + 1) * sz].copy_from_slice(src);
                            std::mem::forget(v);
                        }
                        // taking the view again (here: to ask for its extent) must not disturb what was written through the first one
                        let again = a.spare_bytes_mut();
                        if again.as_ptr() as usize != want_at { return Err(format!("second spare_bytes_mut starts at {:#x}, the first one at {want_at:#x}", again.as_ptr() as usize)); }
                        a.set_len(len + k);
                    } else {
                        let mut t = a.downcast_mut::<T>().unwrap();
                        let spare = t.spare_capacity_mut();
                        let want_at = base + len * sz;
                        if spare.as_ptr() as usize != want_at || spare.len() < k { return Err(format!("spare_capacity_mut covers {:#x}+{} slots but the spare capacity is at {want_at:#x}", spare.as_ptr() as usize, spare.len())); }
                        for (i, v) in vals.drain(..).enumerate() { spare[i].write(v); }
                        let again = t.spare_capacity_mut().len();
                        if again + len != cap { return Err(format!("second spare_capacity_mut has {again} slots, want {}", cap - len)); }
                        t.set_len(len + k);
                    }
                    Ok(())
                });
                match r {
                    Ok(Ok(())) => self.ma.extend(ids),
                    Ok(Err(e)) => { out.fail(Class::Vec, "spare-region", e); let _w = elem::WindowOff::new(); drop(vals); }
                    Err(Caught::Injected) => out.faulted = true,
                    Err(Caught::Panic(m)) => out.fail(Class::Vec, "unexpected-panic", format!("{m}")),
                }
            }
            7 | 8 => {
                // the reverse: move the last k values out by hand (bitwise), then cut them off with set_len - which only sets the
                // length: the moved-out values now belong to the caller and are destroyed by it, exactly once
                let k = k.min(len);
                if k == 0 { out.outcome.push_str("n/a"); return; }
                let mut vals: Vec<T> = Vec::with_capacity(k);
                let r = guarded(|| unsafe {
                    { let t = a.downcast_ref::<T>().unwrap(); for i in 0..k { vals.push(std::ptr::read(t.as_ptr().add(len - k + i))); } }
                    if variant == 7 { a.set_len(len - k); } else { let mut t = a.downcast_mut::<T>().unwrap(); t.set_len(len - k); }
                });
                match r {
                    Ok(()) => {
                        for (i, v) in vals.iter().enumerate() { if T::SIZE != 0 && !crate::exec::mv_match(self.ma[len - k + i], v.id()) { out.fail(Class::Vec, "wrong-element", format!("value read from slot {} has id {}, model {:?}", len - k + i, v.id(), self.ma[len - k + i])); } }
                        self.ma.truncate(len - k);
                        if self.a.len() != len - k { out.fail(Class::Vec, "len-mismatch", format!("set_len({}) left len {}", len - k, self.a.len())); }
                    }
                    Err(Caught::Injected) => out.faulted = true,
                    Err(Caught::Panic(m)) => out.fail(Class::Vec, "unexpected-panic", format!("set_len({}) panicked: {m}", len - k)),
                }
                let _ = guarded(move || drop(vals));
            }
            _ => {}
        }
        out.outcome.push_str("ok");
    }

    /// C12: the vector placed at offset `off` inside a 128-aligned arena: storage must stay aligned and intact
    pub fn do_placement(&mut self, off: usize, out: &mut Out) {
        #[repr(C, align(128))]
        struct Arena([u8; 8192]);
        let vsize = size_of::<AnyVec<Tr, M>>();
        let valign = std::mem::align_of::<AnyVec<Tr, M>>();
        if off % valign != 0 || off + vsize + 256 > 8192 { out.outcome.push_str("n/a"); return; }
        let mut arena = Box::new(Arena([elem::GUARD; 8192]));
        let slot = unsafe { arena.0.as_mut_ptr().add(128 + off) } as *mut AnyVec<Tr, M>;
        let dummy = elem::lib(|| AnyVec::<Tr, M>::new_in::<T>(M::make()));
        let a = std::mem::replace(&mut self.a, dummy);
        unsafe { std::ptr::write(slot, a); }
        let v: &mut AnyVec<Tr, M> = unsafe { &mut *slot };
        let base = v.as_bytes().as_ptr() as usize;
        let aligned = base % T::ALIGN == 0;
        if !aligned {
            out.fail(Class::Mem, misaligned_kind::<T, M>(), format!("vector placed at offset {off} of a 128-aligned arena: storage pointer {base:#x} is {} mod {} (element alignment)", base % T::ALIGN, T::ALIGN));
        } else {
            let s = snap::<T, Tr, M>(v);
            if !snap_matches::<T>(&s, &self.ma) { out.fail(Class::Vec, "placement-content", format!("contents changed when the vector was moved to arena offset {off}")); }
            let tp = v.downcast_ref::<T>().unwrap().as_ptr() as usize;
            if tp != base { out.fail(Class::Vec, "typed-views-alias", format!("typed as_ptr {tp:#x} != as_bytes start {base:#x}")); }
        }
        let back = unsafe { std::ptr::read(slot) };
        let d = std::mem::replace(&mut self.a, back);
        let _ = guarded(move || drop(d));
        // guard bytes around the slot untouched
        let lo = 128 + off;
        if arena.0[..lo].iter().any(|b| *b != elem::GUARD) || arena.0[lo + vsize..].iter().any(|b| *b != elem::GUARD) { out.fail(Class::Mem, "oob-write", "bytes around the vector object were overwritten".into()); }
        out.outcome.push_str(if aligned { "ok" } else { "misaligned" });
    }
}
