//! Capability traits: what a backend (`MX`) and a constraint set (`TrX`) can do, so that one generic executor
//! serves every configuration without `Cloneable` / `MemResizable` bounds on its own signature.

use any_vec::any_value::{AnyValue, AnyValueCloneable, AnyValueTypeless, LazyClone};
use any_vec::element::Element;
use any_vec::mem::{MemBuilder, Stack, StackN};
use any_vec::ops::{Pop, Remove, SwapRemove};
use any_vec::traits::{Cloneable, Trait};
use any_vec::{AnyVec, AnyVecTyped, SatisfyTraits};

use crate::elem::Elem;
use crate::track::{Track, TrackFence, TrackFixed, TrackGreedy, TrackKey, TrackTight, TrackWarm};
use crate::types::CapCall;

#[derive(Clone, Copy, Debug, PartialEq, Eq)]
pub enum BK { Heap, Stack, StackN, Track, TrackFixed, Empty }

#[cfg(feature = "alloc")]
pub type DefaultAux = any_vec::mem::Heap;
#[cfg(not(feature = "alloc"))]
pub type DefaultAux = Stack<2048>;

pub trait MX: MemBuilder + Default + 'static {
    const KIND: BK;
    const RESIZABLE: bool = false;
    const SIZEABLE: bool = false;
    const RAWPARTS: bool = false;
    /// `expand` promises geometric growth (Heap, Track); TrackTight deliberately does not
    const AMORTISED: bool = true;
    /// the builder carries an identity: `Clone` makes a new one (TrackKey), so a bitwise duplicate of the builder is recognisable
    const STATEFUL_BUILDER: bool = false;
    /// backend for auxiliary vectors B / C of an edge
    type Aux: MX;
    fn make() -> Self;
    /// `AnyVec::new::<T>()` (needs `M: Default`)
    fn new_default<T: Elem + SatisfyTraits<Tr>, Tr: ?Sized + Trait>() -> AnyVec<Tr, Self> where Self: Default { AnyVec::<Tr, Self>::new::<T>() }
    fn name() -> String;
    /// fixed capacity (in elements) for an element of `size` bytes, or None if resizable
    fn fixed_cap(_size: usize) -> Option<usize> { None }
    /// whether construction is expected to panic for an element of `size` bytes (StackN with N*size > SIZE)
    fn build_panics(_size: usize) -> bool { false }
    fn with_capacity<T: Elem + SatisfyTraits<Tr>, Tr: ?Sized + Trait>(_cap: usize) -> AnyVec<Tr, Self> { unreachable!("not sizeable") }
    fn cap_call<Tr: ?Sized + Trait>(_v: &mut AnyVec<Tr, Self>, _c: CapCall, _n: usize) { unreachable!("not resizable") }
    fn cap_call_typed<T: 'static>(_v: &mut AnyVecTyped<'_, T, Self>, _c: CapCall, _n: usize) { unreachable!("not resizable") }
    /// C17: decompose into raw parts and rebuild (variants: see exec_views)
    fn raw_roundtrip<T: 'static, Tr: ?Sized + Trait>(_v: AnyVec<Tr, Self>, _variant: u8, _want: &crate::exec_views::PartsWant, _fails: &mut Vec<crate::types::Fail>) -> AnyVec<Tr, Self> { unreachable!("no raw parts") }
}

macro_rules! rawparts_impl {
    () => {
        const RAWPARTS: bool = true;
        fn raw_roundtrip<T: 'static, Tr: ?Sized + Trait>(v: AnyVec<Tr, Self>, variant: u8, want: &crate::exec_views::PartsWant, fails: &mut Vec<crate::types::Fail>) -> AnyVec<Tr, Self> {
            use crate::exec_views::PartsSeen;
            let see = |p: &any_vec::RawParts<Self>| PartsSeen { len: p.len, cap: p.capacity, layout: p.element_layout, tid: p.element_typeid, has_drop: p.element_drop.is_some() };
            let p = v.into_raw_parts();
            see(&p).check(want, "into_raw_parts", fails);
            match variant {
                0 => unsafe { AnyVec::from_raw_parts(p) },
                // `Clone::clone_from` into the parts of ANOTHER vector: same element type, constraint set without Cloneable
                4 => {
                    let dummy = AnyVec::<dyn any_vec::traits::None, Self>::new_in::<T>(Self::make());
                    let mut o = dummy.into_raw_parts();
                    let o_own = o.clone(); // the dummy's own parts: rebuilt and dropped below (its storage may be a real block)
                    o.clone_from(&p);
                    drop(unsafe { AnyVec::<dyn any_vec::traits::None, Self>::from_raw_parts(o_own) });
                    let n0 = fails.len();
                    see(&o).check(want, "RawParts::clone_from", fails);
                    if fails.len() == n0 { unsafe { AnyVec::from_raw_parts(o) } } else { unsafe { AnyVec::from_raw_parts(p) } }
                }
                1 => { let v2: AnyVec<Tr, Self> = unsafe { AnyVec::from_raw_parts(p) }; let p2 = v2.into_raw_parts(); see(&p2).check(want, "second into_raw_parts", fails); unsafe { AnyVec::from_raw_parts(p2) } }
                _ => {
                    let c = p.clone();
                    let n0 = fails.len();
                    see(&c).check(want, "RawParts::clone", fails);
                    // rebuild from the clone only when it describes the same vector (never build a vector from wrong parts)
                    if variant == 2 && fails.len() == n0 { unsafe { AnyVec::from_raw_parts(c) } } else { unsafe { AnyVec::from_raw_parts(p) } }
                }
            }
        }
    };
}

macro_rules! resizable_impl {
    () => {
        const RESIZABLE: bool = true;
        const SIZEABLE: bool = true;
        fn with_capacity<T: Elem + SatisfyTraits<Tr>, Tr: ?Sized + Trait>(cap: usize) -> AnyVec<Tr, Self> {
            // alternate between the Default-based and the explicit-builder constructor
            if cap % 2 == 0 { AnyVec::<Tr, Self>::with_capacity::<T>(cap) } else { AnyVec::<Tr, Self>::with_capacity_in::<T>(cap, Self::make()) }
        }
        fn cap_call<Tr: ?Sized + Trait>(v: &mut AnyVec<Tr, Self>, c: CapCall, n: usize) {
            match c {
                CapCall::Reserve => v.reserve(n),
                CapCall::ReserveExact => v.reserve_exact(n),
                CapCall::ShrinkTo => v.shrink_to(n),
                CapCall::ShrinkToFit => v.shrink_to_fit(),
                _ => unreachable!(),
            }
        }
        fn cap_call_typed<T: 'static>(v: &mut AnyVecTyped<'_, T, Self>, c: CapCall, n: usize) {
            match c {
                CapCall::Reserve => v.reserve(n),
                CapCall::ReserveExact => v.reserve_exact(n),
                CapCall::ShrinkTo => v.shrink_to(n),
                CapCall::ShrinkToFit => v.shrink_to_fit(),
                _ => unreachable!(),
            }
        }
    };
}

#[cfg(feature = "alloc")]
impl MX for any_vec::mem::Heap {
    const KIND: BK = BK::Heap;
    rawparts_impl!();
    type Aux = any_vec::mem::Heap;
    fn make() -> Self { any_vec::mem::Heap }
    fn name() -> String { "Heap".into() }
    resizable_impl!();
}

impl MX for Track {
    const KIND: BK = BK::Track;
    type Aux = Track;
    fn make() -> Self { Track }
    fn name() -> String { "Track".into() }
    resizable_impl!();
}

impl MX for TrackWarm {
    const KIND: BK = BK::Track;
    type Aux = Track;
    fn make() -> Self { TrackWarm }
    fn name() -> String { "TrackWarm".into() }
    resizable_impl!();
}

impl MX for TrackKey {
    const KIND: BK = BK::Track;
    const STATEFUL_BUILDER: bool = true;
    rawparts_impl!();
    type Aux = Track;
    fn make() -> Self { TrackKey::default() }
    fn name() -> String { "TrackKey".into() }
    resizable_impl!();
}

impl MX for TrackGreedy {
    const KIND: BK = BK::Track;
    const AMORTISED: bool = false;
    type Aux = Track;
    fn make() -> Self { TrackGreedy }
    fn name() -> String { "TrackGreedy".into() }
    resizable_impl!();
}

impl MX for TrackTight {
    const KIND: BK = BK::Track;
    type Aux = Track;
    fn make() -> Self { TrackTight }
    const AMORTISED: bool = false;
    fn name() -> String { "TrackTight".into() }
    resizable_impl!();
}

impl<const FRONT: bool> MX for TrackFence<FRONT> {
    const KIND: BK = BK::Track;
    const AMORTISED: bool = false;
    type Aux = Track;
    fn make() -> Self { TrackFence::<FRONT> }
    fn name() -> String { if FRONT { "TrackFence<front>".into() } else { "TrackFence<back>".into() } }
    resizable_impl!();
}

impl<const N: usize> MX for TrackFixed<N> {
    const KIND: BK = BK::TrackFixed;
    type Aux = Track;
    fn make() -> Self { TrackFixed::<N> }
    fn name() -> String { format!("TrackFixed<{N}>") }
    fn fixed_cap(_size: usize) -> Option<usize> { Some(N) }
}

impl<const SIZE: usize> MX for Stack<SIZE> {
    const KIND: BK = BK::Stack;
    type Aux = DefaultAux;
    fn make() -> Self { Stack::<SIZE> }
    fn name() -> String { format!("Stack<{SIZE}>") }
    fn fixed_cap(size: usize) -> Option<usize> { Some(if size == 0 { usize::MAX } else { SIZE / size }) }
}

impl<const N: usize, const SIZE: usize> MX for StackN<N, SIZE> {
    const KIND: BK = BK::StackN;
    type Aux = DefaultAux;
    fn make() -> Self { StackN::<N, SIZE> }
    fn name() -> String { format!("StackN<{N},{SIZE}>") }
    fn fixed_cap(_size: usize) -> Option<usize> { Some(N) }
    fn build_panics(size: usize) -> bool { N * size > SIZE }
}

impl MX for any_vec::mem::Empty {
    const KIND: BK = BK::Empty;
    type Aux = DefaultAux;
    fn make() -> Self { any_vec::mem::Empty }
    fn name() -> String { "Empty".into() }
    rawparts_impl!();
    fn fixed_cap(_size: usize) -> Option<usize> { Some(0) }
}

/// What to do with a lazily cloneable value (`v: &V`, V: AnyValueCloneable).
#[derive(Clone, Copy, Debug)]
pub enum LzUse {
    /// push a depth-`d` lazy clone chain into dst
    Push(u8),
    /// insert at index
    Insert(usize, u8),
    /// downcast::<T>() the lazy clone (consumes it: clones into a T), returns it
    Downcast(u8),
    /// create the chain (and `copies` copies of the lazy clone) and drop everything unconsumed
    CreateDrop(u8, u8),
}

/// Generic consumer of a value of statically unknown handle type.
pub trait Consumer<Tr: ?Sized + Trait, M: MemBuilder> {
    fn take<V: AnyValue>(self, a: &mut AnyVec<Tr, M>, v: V);
}
pub struct PushC;
impl<Tr: ?Sized + Trait, M: MemBuilder> Consumer<Tr, M> for PushC {
    #[inline] fn take<V: AnyValue>(self, a: &mut AnyVec<Tr, M>, v: V) { a.push(v) }
}
pub struct InsertC(pub usize);
impl<Tr: ?Sized + Trait, M: MemBuilder> Consumer<Tr, M> for InsertC {
    #[inline] fn take<V: AnyValue>(self, a: &mut AnyVec<Tr, M>, v: V) { a.insert(self.0, v) }
}

/// the unchecked entry points (no type test): `push_unchecked` / `insert_unchecked`
pub struct PushUncheckedC;
impl<Tr: ?Sized + Trait, M: MemBuilder> Consumer<Tr, M> for PushUncheckedC {
    #[inline] fn take<V: AnyValue>(self, a: &mut AnyVec<Tr, M>, v: V) { unsafe { a.push_unchecked(v) } }
}
pub struct InsertUncheckedC(pub usize);
impl<Tr: ?Sized + Trait, M: MemBuilder> Consumer<Tr, M> for InsertUncheckedC {
    #[inline] fn take<V: AnyValue>(self, a: &mut AnyVec<Tr, M>, v: V) { unsafe { a.insert_unchecked(self.0, v) } }
}

/// consume the value as the single replacement item of `splice(i..i, [v])`
pub struct SpliceC(pub usize);
impl<Tr: ?Sized + Trait, M: MemBuilder> Consumer<Tr, M> for SpliceC {
    #[inline] fn take<V: AnyValue>(self, a: &mut AnyVec<Tr, M>, v: V) { let d = a.splice(self.0..self.0, [v]); drop(d); }
}

/// Feed a depth-`d` lazy clone chain of `v` into consumer `c`.
pub fn lazy_feed<V, Tr, M, C>(v: &V, depth: u8, a: &mut AnyVec<Tr, M>, c: C)
where V: AnyValueCloneable + AnyValue, Tr: ?Sized + Trait, M: MemBuilder, C: Consumer<Tr, M>
{
    match depth {
        1 => c.take(a, v.lazy_clone()),
        2 => { let l1 = v.lazy_clone(); c.take(a, l1.lazy_clone()) }
        _ => { let l1 = v.lazy_clone(); let l2 = LazyClone::new(&l1).clone(); c.take(a, l2.lazy_clone()) }
    }
}

/// Downcast a depth-`d` lazy clone chain of `v` into an owned T (one clone).
pub fn lazy_downcast<T: 'static, V: AnyValueCloneable + AnyValue>(v: &V, depth: u8) -> Option<T> {
    match depth {
        1 => v.lazy_clone().downcast::<T>(),
        2 => { let l1 = v.lazy_clone(); l1.lazy_clone().downcast::<T>() }
        _ => { let l1 = v.lazy_clone(); let l2 = l1.lazy_clone(); let r = l2.lazy_clone().downcast::<T>(); r }
    }
}

/// what a depth-`d` lazy clone chain reports about itself: (size, value_typeid, id read through as_bytes)
pub fn lazy_reports<V: AnyValueCloneable + AnyValue>(v: &V, depth: u8) -> (usize, core::any::TypeId, u16) {
    fn rep<X: AnyValue>(x: &X) -> (usize, core::any::TypeId, u16) { (x.size(), x.value_typeid(), crate::elem::id_of_bytes(x.as_bytes())) }
    match depth {
        1 => rep(&v.lazy_clone()),
        2 => { let l1 = v.lazy_clone(); rep(&l1.lazy_clone()) }
        _ => { let l1 = v.lazy_clone(); let l2 = l1.lazy_clone(); rep(&l2.lazy_clone()) }
    }
}

/// Create chains / copies and drop them all unconsumed.
pub fn lazy_create_drop<V: AnyValueCloneable + AnyValue>(v: &V, depth: u8, copies: u8) {
    let l1 = v.lazy_clone();
    let l2 = l1.lazy_clone();
    let l3 = l2.lazy_clone();
    for _ in 0..copies { let c1 = l1.clone(); let _c2 = c1.clone(); if depth >= 2 { let _ = l2.clone(); } if depth >= 3 { let _ = l3.clone(); } }
    let _ = (l3.size(), l2.value_typeid());
}

pub trait TrX: Trait {
    const CLONEABLE: bool;
    fn name() -> &'static str;
    fn clone_vec<M: MemBuilder>(_v: &AnyVec<Self, M>) -> AnyVec<Self, M> { unreachable!("not cloneable") }
    /// the published element clone function (`AnyVec::element_clone`, needs `Cloneable`)
    fn element_clone_fn<M: MemBuilder>(_v: &AnyVec<Self, M>) -> Option<unsafe fn(*const u8, *mut u8, usize)> { None }
    /// `Clone::clone_from` (C08)
    fn clone_from_vec<M: MemBuilder>(_dst: &mut AnyVec<Self, M>, _src: &AnyVec<Self, M>) { unreachable!("not cloneable") }
    /// a destination for `clone_from` that currently holds ANOTHER element type (see `foreign_vec_impl`)
    fn foreign_vec<T: Elem, M: MX>(kind: u8) -> Option<AnyVec<Self, M>>;
    /// lazy-clone of an `Element` (ElementRef / ElementMut / drained element all deref to it)
    fn lz_element<'e, MS: MemBuilder, M: MemBuilder, Tr2: ?Sized + Trait, C: Consumer<Tr2, M>>(_e: &Element<'e, Self, MS>, _depth: u8, _a: &mut AnyVec<Tr2, M>, _c: C) { unreachable!() }
    fn lz_pop<'e, MS: MemBuilder, M: MemBuilder, Tr2: ?Sized + Trait, C: Consumer<Tr2, M>>(_e: &Pop<'e, Self, MS>, _depth: u8, _a: &mut AnyVec<Tr2, M>, _c: C) { unreachable!() }
    fn lz_remove<'e, MS: MemBuilder, M: MemBuilder, Tr2: ?Sized + Trait, C: Consumer<Tr2, M>>(_e: &Remove<'e, Self, MS>, _depth: u8, _a: &mut AnyVec<Tr2, M>, _c: C) { unreachable!() }
    fn lz_swap_remove<'e, MS: MemBuilder, M: MemBuilder, Tr2: ?Sized + Trait, C: Consumer<Tr2, M>>(_e: &SwapRemove<'e, Self, MS>, _depth: u8, _a: &mut AnyVec<Tr2, M>, _c: C) { unreachable!() }
    fn lzd_element<'e, T: 'static, MS: MemBuilder>(_e: &Element<'e, Self, MS>, _depth: u8) -> Option<T> { unreachable!() }
    fn lzd_pop<'e, T: 'static, MS: MemBuilder>(_e: &Pop<'e, Self, MS>, _depth: u8) -> Option<T> { unreachable!() }
    fn lzd_remove<'e, T: 'static, MS: MemBuilder>(_e: &Remove<'e, Self, MS>, _depth: u8) -> Option<T> { unreachable!() }
    fn lzd_swap_remove<'e, T: 'static, MS: MemBuilder>(_e: &SwapRemove<'e, Self, MS>, _depth: u8) -> Option<T> { unreachable!() }
    fn lz_splice<'e, MS: MemBuilder, M: MemBuilder, S: crate::exec_range::SpliceRun<Self, M>>(_refs: &'e [any_vec::element::ElementRef<'e, Self, MS>], _a: &mut AnyVec<Self, M>, _s: S) -> Vec<crate::exec_range::StepObs> { unreachable!() }
    fn lzc_element<'e, MS: MemBuilder>(_e: &Element<'e, Self, MS>, _depth: u8, _copies: u8) { unreachable!() }
    fn lzr_element<'e, MS: MemBuilder>(_e: &Element<'e, Self, MS>, _depth: u8) -> (usize, core::any::TypeId, u16) { unreachable!() }
    fn lzc_pop<'e, MS: MemBuilder>(_e: &Pop<'e, Self, MS>, _depth: u8, _copies: u8) { unreachable!() }
    fn lzr_pop<'e, MS: MemBuilder>(_e: &Pop<'e, Self, MS>, _depth: u8) -> (usize, core::any::TypeId, u16) { unreachable!() }
    fn lzc_remove<'e, MS: MemBuilder>(_e: &Remove<'e, Self, MS>, _depth: u8, _copies: u8) { unreachable!() }
    fn lzr_remove<'e, MS: MemBuilder>(_e: &Remove<'e, Self, MS>, _depth: u8) -> (usize, core::any::TypeId, u16) { unreachable!() }
    fn lzc_swap_remove<'e, MS: MemBuilder>(_e: &SwapRemove<'e, Self, MS>, _depth: u8, _copies: u8) { unreachable!() }
    fn lzr_swap_remove<'e, MS: MemBuilder>(_e: &SwapRemove<'e, Self, MS>, _depth: u8) -> (usize, core::any::TypeId, u16) { unreachable!() }
}

/// Same size and alignment as `T`, another `TypeId`; cloning and dropping it clones / drops the tracked `T` inside.
#[repr(transparent)]
#[derive(Clone)]
pub struct Twin<T: Elem>(pub T);

pub const N_FOREIGN: u8 = 8;
/// A vector whose element type is NOT necessarily `T`, holding up to two values (fewer if the backend has no room):
/// 0 = u64, 1 = W8DX, 2 = u8, 3 = ZD, 4 = Twin<T> (same layout as T), 5 = T itself, 6 = T empty, 7 = Twin<T> empty.
/// None when the backend cannot be built for that element type.
pub fn foreign_vec_impl<T: Elem, Tr: ?Sized + Trait, M: MX>(kind: u8) -> Option<AnyVec<Tr, M>>
where T: SatisfyTraits<Tr>, Twin<T>: SatisfyTraits<Tr>, u64: SatisfyTraits<Tr>, u8: SatisfyTraits<Tr>, crate::elem::W8DX: SatisfyTraits<Tr>, crate::elem::ZD: SatisfyTraits<Tr>
{
    fn mk<X: 'static + SatisfyTraits<Tr>, Tr: ?Sized + Trait, M: MX>(n: usize, mut f: impl FnMut() -> X) -> Option<AnyVec<Tr, M>> {
        let (size, align) = (core::mem::size_of::<X>(), core::mem::align_of::<X>());
        if M::build_panics(size) { return None; }
        if matches!(M::KIND, BK::Stack | BK::StackN) && align > 8 { return None; }
        let mut v = AnyVec::<Tr, M>::new_in::<X>(M::make());
        for _ in 0..n {
            if !M::RESIZABLE && v.len() >= v.capacity() { break; }
            let x = f();
            v.downcast_mut::<X>().unwrap().push(x);
        }
        Some(v)
    }
    let mut k = 6u64;
    match kind {
        0 => mk::<u64, Tr, M>(2, || { k += 1; k }),
        1 => mk::<crate::elem::W8DX, Tr, M>(2, crate::elem::W8DX::fresh),
        2 => mk::<u8, Tr, M>(2, || { k += 1; k as u8 }),
        3 => mk::<crate::elem::ZD, Tr, M>(2, crate::elem::ZD::fresh),
        4 => mk::<Twin<T>, Tr, M>(2, || Twin(T::fresh())),
        5 => mk::<T, Tr, M>(2, T::fresh),
        6 => mk::<T, Tr, M>(0, T::fresh),
        _ => mk::<Twin<T>, Tr, M>(0, || Twin(T::fresh())),
    }
}

macro_rules! trx_plain {
    ($t:ty, $n:expr) => {
        impl TrX for $t {
            const CLONEABLE: bool = false;
            fn name() -> &'static str { $n }
            fn foreign_vec<T: Elem, M: MX>(kind: u8) -> Option<AnyVec<Self, M>> { foreign_vec_impl::<T, Self, M>(kind) }
        }
    };
}
macro_rules! trx_cloneable {
    ($t:ty, $n:expr) => {
        impl TrX for $t {
            const CLONEABLE: bool = true;
            fn name() -> &'static str { $n }
            fn clone_vec<M: MemBuilder>(v: &AnyVec<Self, M>) -> AnyVec<Self, M> { v.clone() }
            fn clone_from_vec<M: MemBuilder>(dst: &mut AnyVec<Self, M>, src: &AnyVec<Self, M>) { dst.clone_from(src) }
            fn element_clone_fn<M: MemBuilder>(v: &AnyVec<Self, M>) -> Option<unsafe fn(*const u8, *mut u8, usize)> { Some(v.element_clone()) }
            fn foreign_vec<T: Elem, M: MX>(kind: u8) -> Option<AnyVec<Self, M>> { foreign_vec_impl::<T, Self, M>(kind) }
            fn lz_element<'e, MS: MemBuilder, M: MemBuilder, Tr2: ?Sized + Trait, C: Consumer<Tr2, M>>(e: &Element<'e, Self, MS>, depth: u8, a: &mut AnyVec<Tr2, M>, c: C) { lazy_feed(e, depth, a, c) }
            fn lz_pop<'e, MS: MemBuilder, M: MemBuilder, Tr2: ?Sized + Trait, C: Consumer<Tr2, M>>(e: &Pop<'e, Self, MS>, depth: u8, a: &mut AnyVec<Tr2, M>, c: C) { lazy_feed(e, depth, a, c) }
            fn lz_remove<'e, MS: MemBuilder, M: MemBuilder, Tr2: ?Sized + Trait, C: Consumer<Tr2, M>>(e: &Remove<'e, Self, MS>, depth: u8, a: &mut AnyVec<Tr2, M>, c: C) { lazy_feed(e, depth, a, c) }
            fn lz_swap_remove<'e, MS: MemBuilder, M: MemBuilder, Tr2: ?Sized + Trait, C: Consumer<Tr2, M>>(e: &SwapRemove<'e, Self, MS>, depth: u8, a: &mut AnyVec<Tr2, M>, c: C) { lazy_feed(e, depth, a, c) }
            fn lzd_element<'e, T: 'static, MS: MemBuilder>(e: &Element<'e, Self, MS>, depth: u8) -> Option<T> { lazy_downcast::<T, _>(e, depth) }
            fn lzd_pop<'e, T: 'static, MS: MemBuilder>(e: &Pop<'e, Self, MS>, depth: u8) -> Option<T> { lazy_downcast::<T, _>(e, depth) }
            fn lzd_remove<'e, T: 'static, MS: MemBuilder>(e: &Remove<'e, Self, MS>, depth: u8) -> Option<T> { lazy_downcast::<T, _>(e, depth) }
            fn lzd_swap_remove<'e, T: 'static, MS: MemBuilder>(e: &SwapRemove<'e, Self, MS>, depth: u8) -> Option<T> { lazy_downcast::<T, _>(e, depth) }
            fn lz_splice<'e, MS: MemBuilder, M: MemBuilder, S: crate::exec_range::SpliceRun<Self, M>>(refs: &'e [any_vec::element::ElementRef<'e, Self, MS>], a: &mut AnyVec<Self, M>, s: S) -> Vec<crate::exec_range::StepObs> { crate::exec_range::lz_splice_impl(refs, a, s) }
            fn lzc_element<'e, MS: MemBuilder>(e: &Element<'e, Self, MS>, depth: u8, copies: u8) { lazy_create_drop(e, depth, copies) }
            fn lzr_element<'e, MS: MemBuilder>(e: &Element<'e, Self, MS>, depth: u8) -> (usize, core::any::TypeId, u16) { lazy_reports(e, depth) }
            fn lzc_pop<'e, MS: MemBuilder>(e: &Pop<'e, Self, MS>, depth: u8, copies: u8) { lazy_create_drop(e, depth, copies) }
            fn lzr_pop<'e, MS: MemBuilder>(e: &Pop<'e, Self, MS>, depth: u8) -> (usize, core::any::TypeId, u16) { lazy_reports(e, depth) }
            fn lzc_remove<'e, MS: MemBuilder>(e: &Remove<'e, Self, MS>, depth: u8, copies: u8) { lazy_create_drop(e, depth, copies) }
            fn lzr_remove<'e, MS: MemBuilder>(e: &Remove<'e, Self, MS>, depth: u8) -> (usize, core::any::TypeId, u16) { lazy_reports(e, depth) }
            fn lzc_swap_remove<'e, MS: MemBuilder>(e: &SwapRemove<'e, Self, MS>, depth: u8, copies: u8) { lazy_create_drop(e, depth, copies) }
            fn lzr_swap_remove<'e, MS: MemBuilder>(e: &SwapRemove<'e, Self, MS>, depth: u8) -> (usize, core::any::TypeId, u16) { lazy_reports(e, depth) }
        }
    };
}

use any_vec::traits::None as TNone;
trx_plain!(dyn TNone, "None");
trx_plain!(dyn Send, "Send");
trx_plain!(dyn Sync, "Sync");
trx_plain!(dyn Send + Sync, "Send+Sync");
trx_cloneable!(dyn Cloneable, "Cloneable");
trx_cloneable!(dyn Cloneable + Send, "Cloneable+Send");
trx_cloneable!(dyn Cloneable + Sync, "Cloneable+Sync");
trx_cloneable!(dyn Cloneable + Send + Sync, "Cloneable+Send+Sync");
