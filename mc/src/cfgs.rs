//! Configuration table: (element type, backend, constraint set) → object-safe runner.
//! The product is not instantiated in full (compile time); the cover is described in DESIGN.md §3.3.

use std::marker::PhantomData;

use any_vec::mem::{Stack, StackN};
use any_vec::traits::{Cloneable, None as TNone};

use crate::elem::*;
use crate::exec::{Cfg, Runner};
use crate::track::{Track, TrackFixed};

#[cfg(feature = "alloc")]
use any_vec::mem::Heap;

macro_rules! c {
    ($v:ident, $t:ty, $m:ty, $tr:ty) => { $v.push(Box::new(Cfg::<$t, $m, $tr>(PhantomData)) as Box<dyn Runner>); };
}

pub fn all() -> Vec<Box<dyn Runner>> {
    let mut v: Vec<Box<dyn Runner>> = Vec::new();
    // every layout on Heap + Cloneable and on Track + Cloneable
    macro_rules! layouts { ($($t:ty),*) => { $(
        #[cfg(feature = "alloc")] { c!(v, $t, Heap, dyn Cloneable); }
        c!(v, $t, Track, dyn Cloneable);
    )* } }
    layouts!(Z, ZD, ZA64, B1, B1D, H2D, T3D, W8, W8D, W8A4, D12D, Q16D, X24D, A32D, A64D, L160, L160D);
    // every backend on a few layouts (stack backends only with element alignment <= 8; see C12)
    c!(v, ZD, Stack<0>, dyn Cloneable);
    c!(v, ZD, StackN<3, 0>, dyn Cloneable);
    c!(v, ZD, TrackFixed<3>, dyn Cloneable);
    c!(v, B1D, Stack<4>, dyn Cloneable);
    c!(v, B1D, StackN<3, 3>, dyn Cloneable);
    c!(v, B1D, TrackFixed<4>, dyn Cloneable);
    c!(v, T3D, Stack<13>, dyn Cloneable);
    c!(v, W8D, Stack<32>, dyn Cloneable);
    c!(v, W8D, Stack<39>, dyn TNone);
    c!(v, W8D, StackN<3, 24>, dyn Cloneable);
    c!(v, W8D, StackN<2, 32>, dyn TNone);
    c!(v, W8D, TrackFixed<4>, dyn Cloneable);
    c!(v, X24D, Stack<96>, dyn Cloneable);
    c!(v, A64D, TrackFixed<3>, dyn Cloneable);
    c!(v, L160D, TrackFixed<2>, dyn TNone);
    // every constraint set on W8D x {Heap, Stack}
    macro_rules! sets { ($($tr:ty),*) => { $(
        #[cfg(feature = "alloc")] { c!(v, W8D, Heap, $tr); }
        c!(v, W8D, Stack<24>, $tr);
    )* } }
    sets!(dyn TNone, dyn Send, dyn Sync, dyn Send + Sync, dyn Cloneable + Send, dyn Cloneable + Sync, dyn Cloneable + Send + Sync);
    v
}
