use any_vec::AnyVec;
use any_vec::any_value::AnyValue;
use std::sync::atomic::{AtomicUsize, Ordering};
static DROPS: [AtomicUsize; 3] = [AtomicUsize::new(0), AtomicUsize::new(0), AtomicUsize::new(0)];
struct D(usize);
impl Drop for D { fn drop(&mut self) { DROPS[self.0].fetch_add(1, Ordering::SeqCst); } }
#[test]
fn drained_element_outlives_the_drain() {
    let mut v: AnyVec = AnyVec::new::<D>();
    { let mut t = v.downcast_mut::<D>().unwrap(); t.push(D(0)); t.push(D(1)); t.push(D(2)); }
    let first = { let mut d = v.drain(0..1); d.next().unwrap() }; // the Drain is dropped here, `first` lives on
    let seen = first.downcast_ref::<D>().unwrap().0;
    drop(first);
    drop(v);
    let counts: Vec<usize> = DROPS.iter().map(|c| c.load(Ordering::SeqCst)).collect();
    assert_eq!((seen, counts), (0, vec![1, 1, 1]));
}
