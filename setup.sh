#!/bin/sh
# Build the framework offline from files on disk only.
set -e
cd "$(dirname "$0")"
export CARGO_NET_OFFLINE=true
if [ -d mc ]; then ./check --build-only; fi
