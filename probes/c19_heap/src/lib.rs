//! C19 probe: `any_vec::mem::Heap` must resolve exactly when the `alloc` feature is on.
pub fn f() -> any_vec::mem::Heap { any_vec::mem::Heap }
