"""C16: uses of a vector that conflict with a live handle are rejected at compile time.

Generates one function per (handle producer x conflict class) and its conflict-free control; rustc's borrow checker is the
per-program oracle (one `cargo check --message-format=json` per crate; errors are mapped to functions by line).
"""
import time
from probes import write_crate, cargo_json, errors_by_fn, gen_fn_crate, report, machinery

PRELUDE = """#![allow(dead_code, unused_imports, unused_variables, unused_mut, unused_assignments)]
use any_vec::any_value::{AnyValue, AnyValueCloneable, AnyValueMut, AnyValueTypeless, AnyValueTypelessMut, AnyValueWrapper, LazyClone};
use any_vec::traits::Cloneable;
use any_vec::AnyVec;

type V = AnyVec<dyn Cloneable>;
fn mk() -> V {
    let mut v: V = AnyVec::new::<String>();
    for s in ["a", "b", "c"] { v.push(AnyValueWrapper::new(String::from(s))); }
    v
}
fn touch<T: ?Sized>(_: &T) {}
fn touch_mut<T: ?Sized>(_: &mut T) {}
"""

BORROW_CODES = {"E0596", "E0594", "E0499", "E0502", "E0505", "E0506", "E0597", "E0716", "E0382", "E0503", "E0515", "E0521", "E0713", "E0501", "E0381"}

# ---- producers ------------------------------------------------------------------------------------------------------
# name, kind (shared|excl), pre (statements before; may define views), make (expression producing the handle, from v or the view),
# by_value (consumption expression template with {h}) or None, view (name of the typed view the handle comes from, if any)
ERASED = [
    ("at", "shared", "", "v.at(0)", None),
    ("get", "shared", "", "v.get(0).unwrap()", None),
    ("iter", "shared", "", "v.iter()", None),
    ("into_iter_ref", "shared", "", "(&v).into_iter()", None),
    ("as_bytes", "shared", "", "v.as_bytes()", None),
    ("downcast_ref", "shared", "", "v.downcast_ref::<String>().unwrap()", None),
    ("get_unchecked", "shared", "", "unsafe { v.get_unchecked(0) }", None),
    ("downcast_ref_unchecked", "shared", "", "unsafe { v.downcast_ref_unchecked::<String>() }", None),
    ("at_mut", "excl", "", "v.at_mut(0)", None),
    ("get_unchecked_mut", "excl", "", "unsafe { v.get_unchecked_mut(0) }", None),
    ("downcast_mut_unchecked", "excl", "", "unsafe { v.downcast_mut_unchecked::<String>() }", None),
    ("get_mut", "excl", "", "v.get_mut(0).unwrap()", None),
    ("iter_mut", "excl", "", "v.iter_mut()", None),
    ("into_iter_mut", "excl", "", "(&mut v).into_iter()", None),
    ("as_bytes_mut", "excl", "", "v.as_bytes_mut()", None),
    ("spare_bytes_mut", "excl", "", "v.spare_bytes_mut()", None),
    ("downcast_mut", "excl", "", "v.downcast_mut::<String>().unwrap()", None),
    ("pop", "excl", "", "v.pop().unwrap()", "{h}.downcast::<String>()"),
    ("remove", "excl", "", "v.remove(0)", "{h}.downcast::<String>()"),
    ("swap_remove", "excl", "", "v.swap_remove(0)", "{h}.downcast::<String>()"),
    ("drain", "excl", "", "v.drain(..)", None),
    ("splice", "excl", "", "v.splice(.., [AnyValueWrapper::new(String::new())])", None),
]
# handles obtained from a typed view `t` of `v`
TYPED_REF = [("r.at", "r.at(0)"), ("r.get", "r.get(0).unwrap()"), ("r.iter", "r.iter()"), ("r.as_slice", "r.as_slice()"), ("r.into_iter", "r.clone().into_iter()")]
TYPED_REF += [("r.clone", "r.clone()"), ("r.get_unchecked", "unsafe { r.get_unchecked(0) }")]
TYPED_MUT_SHARED = [("t.at", "t.at(0)"), ("t.get", "t.get(0).unwrap()"), ("t.iter", "t.iter()"), ("t.as_slice", "t.as_slice()")]
TYPED_MUT_EXCL = [("t.at_mut", "t.at_mut(0)"), ("t.get_mut", "t.get_mut(0).unwrap()"), ("t.iter_mut", "t.iter_mut()"), ("t.as_mut_slice", "t.as_mut_slice()"),
                  ("t.spare_capacity_mut", "t.spare_capacity_mut()"), ("t.drain", "t.drain(..)"), ("t.splice", "t.splice(.., [String::new()])")]


def programs():
    """returns list of (id, conflict body, control body, applicable)"""
    out = []

    def add(pid, cls, conflict, control):
        out.append((f"{pid}/{cls}", conflict, control))

    for name, kind, pre, make, consume in ERASED:
        base = f"let mut v = mk();\n{pre}"
        # 1 mutate source while the handle is alive
        add(name, "mutate-source", f"{base}let mut h = {make};\nv.clear();\ntouch(&h);", f"{base}let mut h = {make};\ntouch(&h);\ndrop(h);\nv.clear();")
        # 2 read source under an exclusive handle
        if kind == "excl":
            add(name, "read-source", f"{base}let mut h = {make};\nlet n = v.len();\ntouch(&h);", f"{base}let mut h = {make};\ntouch(&h);\ndrop(h);\nlet n = v.len();")
            # 3 second exclusive handle
            add(name, "second-exclusive", f"{base}let mut h = {make};\nlet mut h2 = {make};\ntouch(&h);\ntouch(&h2);", f"{base}let mut h = {make};\ntouch(&h);\ndrop(h);\nlet mut h2 = {make};\ntouch(&h2);")
        # 4 move / drop the source
        add(name, "drop-source", f"{base}let mut h = {make};\ndrop(v);\ntouch(&h);", f"{base}let mut h = {make};\ntouch(&h);\ndrop(h);\ndrop(v);")
        add(name, "move-source", f"{base}let mut h = {make};\nlet v2 = v;\ntouch(&h);", f"{base}let mut h = {make};\ntouch(&h);\ndrop(h);\nlet v2 = v;")
        # 5 escape the source's scope
        add(name, "escape-scope", f"let mut h;\n{{\n    let mut v = mk();\n    {pre}h = {make};\n}}\ntouch(&h);", f"{{\n    let mut v = mk();\n    {pre}let mut h = {make};\n    touch(&h);\n}}")
        # 6 consume a by-value handle twice
        if consume:
            c = consume.format(h="h")
            add(name, "consume-twice", f"{base}let h = {make};\nlet a = {c};\nlet b = {c};", f"{base}let h = {make};\nlet a = {c};")
    # lazy clones: source must outlive the lazy clone, and the vector must not change meanwhile
    add("lazy_clone(at)", "mutate-source", "let mut v = mk();\nlet e = v.at(0);\nlet l = e.lazy_clone();\nv.clear();\ntouch(&l);", "let mut v = mk();\nlet e = v.at(0);\nlet l = e.lazy_clone();\ntouch(&l);\ndrop(l);\ndrop(e);\nv.clear();")
    add("lazy_clone(at)", "escape-scope", "let mut v = mk();\nlet l;\n{\n    let e = v.at(0);\n    l = e.lazy_clone();\n}\ntouch(&l);", "let mut v = mk();\n{\n    let e = v.at(0);\n    let l = e.lazy_clone();\n    touch(&l);\n}")
    add("lazy_clone(pop)", "escape-scope", "let mut v = mk();\nlet l;\n{\n    let h = v.pop().unwrap();\n    l = h.lazy_clone();\n}\ntouch(&l);", "let mut v = mk();\n{\n    let h = v.pop().unwrap();\n    let l = h.lazy_clone();\n    touch(&l);\n}")
    add("lazy_clone(pop)", "consume-source-while-lazy", "let mut v = mk();\nlet h = v.pop().unwrap();\nlet l = h.lazy_clone();\nlet s = h.downcast::<String>();\ntouch(&l);", "let mut v = mk();\nlet h = v.pop().unwrap();\nlet l = h.lazy_clone();\ntouch(&l);\ndrop(l);\nlet s = h.downcast::<String>();")
    # the explicit constructor ties the lazy clone to its source just like `.lazy_clone()` does
    add("LazyClone::new(pop)", "escape-scope", "let mut v = mk();\nlet l;\n{\n    let h = v.pop().unwrap();\n    l = LazyClone::new(&h);\n}\ntouch(&l);", "let mut v = mk();\n{\n    let h = v.pop().unwrap();\n    let l = LazyClone::new(&h);\n    touch(&l);\n}")
    add("LazyClone::new(remove)", "consume-source-while-lazy", "let mut v = mk();\nlet h = v.remove(0);\nlet l = LazyClone::new(&h);\ndrop(h);\ntouch(&l);", "let mut v = mk();\nlet h = v.remove(0);\nlet l = LazyClone::new(&h);\ntouch(&l);\ndrop(l);\ndrop(h);")
    add("lazy_clone(lazy)", "escape-scope", "let mut v = mk();\nlet e = v.at(0);\nlet l2;\n{\n    let l1 = e.lazy_clone();\n    l2 = l1.lazy_clone();\n}\ntouch(&l2);", "let mut v = mk();\nlet e = v.at(0);\n{\n    let l1 = e.lazy_clone();\n    let l2 = l1.lazy_clone();\n    touch(&l2);\n}")
    # typed shared view
    for name, make in TYPED_REF:
        base = "let mut v = mk();\nlet r = v.downcast_ref::<String>().unwrap();\n"
        add(name, "mutate-source", f"{base}let h = {make};\nv.clear();\ntouch(&h);", f"{base}let h = {make};\ntouch(&h);\nv.clear();")
        add(name, "drop-source", f"{base}let h = {make};\ndrop(v);\ntouch(&h);", f"{base}let h = {make};\ntouch(&h);\ndrop(v);")
        add(name, "escape-scope", f"let h;\n{{\n    let mut v = mk();\n    let r = v.downcast_ref::<String>().unwrap();\n    h = {make};\n}}\ntouch(&h);", f"{{\n    let mut v = mk();\n    let r = v.downcast_ref::<String>().unwrap();\n    let h = {make};\n    touch(&h);\n}}")
    # typed exclusive view
    for name, make in TYPED_MUT_SHARED + TYPED_MUT_EXCL:
        excl = (name, make) in TYPED_MUT_EXCL
        base = "let mut v = mk();\nlet mut t = v.downcast_mut::<String>().unwrap();\n"
        add(name, "mutate-source", f"{base}let mut h = {make};\nv.clear();\ntouch(&h);", f"{base}let mut h = {make};\ntouch(&h);\ndrop(h);\ndrop(t);\nv.clear();")
        add(name, "drop-source", f"{base}let mut h = {make};\ndrop(v);\ntouch(&h);", f"{base}let mut h = {make};\ntouch(&h);\ndrop(h);\ndrop(t);\ndrop(v);")
        add(name, "escape-scope", f"let mut h;\n{{\n    let mut v = mk();\n    let mut t = v.downcast_mut::<String>().unwrap();\n    h = {make};\n}}\ntouch(&h);", f"{{\n    let mut v = mk();\n    let mut t = v.downcast_mut::<String>().unwrap();\n    let mut h = {make};\n    touch(&h);\n}}")
        # 7 mutate through the view, then reuse an earlier borrow obtained from it
        add(name, "view-mutated-then-reuse(push)", f"{base}let mut h = {make};\nt.push(String::new());\ntouch(&h);", f"{base}let mut h = {make};\ntouch(&h);\ndrop(h);\nt.push(String::new());")
        add(name, "view-mutated-then-reuse(clear)", f"{base}let mut h = {make};\nt.clear();\ntouch(&h);", f"{base}let mut h = {make};\ntouch(&h);\ndrop(h);\nt.clear();")
        if excl:
            # 8 two simultaneous mutable paths
            add(name, "two-mutable-paths", f"{base}let mut h = {make};\nlet mut h2 = {make};\ntouch_mut(&mut h);\ntouch_mut(&mut h2);", f"{base}let mut h = {make};\ntouch_mut(&mut h);\ndrop(h);\nlet mut h2 = {make};\ntouch_mut(&mut h2);")
            add(name, "shared-while-mutable", f"{base}let mut h = {make};\nlet s = t.as_slice();\ntouch_mut(&mut h);\ntouch(&s);", f"{base}let mut h = {make};\ntouch_mut(&mut h);\ndrop(h);\nlet s = t.as_slice();\ntouch(&s);")
    # second-level borrows from element handles
    second = [
        ("ElementRef.downcast_ref", "let e = v.at(0);", "e.downcast_ref::<String>().unwrap()", "shared"),
        ("ElementRef.as_bytes", "let e = v.at(0);", "e.as_bytes()", "shared"),
        ("ElementMut.downcast_mut", "let mut e = v.at_mut(0);", "e.downcast_mut::<String>().unwrap()", "excl"),
        ("ElementMut.as_bytes_mut", "let mut e = v.at_mut(0);", "e.as_bytes_mut()", "excl"),
        ("ElementMut.downcast_ref", "let mut e = v.at_mut(0);", "e.downcast_ref::<String>().unwrap()", "shared"),
    ]
    for name, mk_e, mk_b, kind in second:
        base = f"let mut v = mk();\n{mk_e}\n"
        add(name, "mutate-source", f"{base}let mut b = {mk_b};\nv.clear();\ntouch(&b);", f"{base}let mut b = {mk_b};\ntouch(&b);\ndrop(e);\nv.clear();")
        add(name, "drop-source", f"{base}let mut b = {mk_b};\ndrop(v);\ntouch(&b);", f"{base}let mut b = {mk_b};\ntouch(&b);\ndrop(e);\ndrop(v);")
        if kind == "excl":
            add(name, "two-mutable-paths", f"{base}let mut b = {mk_b};\nlet mut b2 = {mk_b};\ntouch_mut(&mut b);\ntouch_mut(&mut b2);", f"{base}let mut b = {mk_b};\ntouch_mut(&mut b);\nlet mut b2 = {mk_b};\ntouch_mut(&mut b2);")
            add(name, "shared-while-mutable", f"{base}let mut b = {mk_b};\nlet s = e.downcast_ref::<String>().unwrap();\ntouch_mut(&mut b);\ntouch(&s);", f"{base}let mut b = {mk_b};\ntouch_mut(&mut b);\nlet s = e.downcast_ref::<String>().unwrap();\ntouch(&s);")
    # borrows from OWNING handles must not outlive the handle
    owning = [
        ("drained.downcast_ref", "let mut d = v.drain(..);\nlet e = d.next().unwrap();", "e.downcast_ref::<String>().unwrap()", "drop(e);"),
        ("drained.downcast_mut", "let mut d = v.drain(..);\nlet mut e = d.next().unwrap();", "e.downcast_mut::<String>().unwrap()", "drop(e);"),
        ("drained.as_bytes", "let mut d = v.drain(..);\nlet e = d.next().unwrap();", "e.as_bytes()", "drop(e);"),
        ("pop.downcast_ref", "let h = v.pop().unwrap();", "h.downcast_ref::<String>().unwrap()", "drop(h);"),
        ("pop.downcast_mut", "let mut h = v.pop().unwrap();", "h.downcast_mut::<String>().unwrap()", "drop(h);"),
        ("remove.as_bytes", "let h = v.remove(0);", "h.as_bytes()", "drop(h);"),
        ("swap_remove.downcast_ref", "let h = v.swap_remove(0);", "h.downcast_ref::<String>().unwrap()", "drop(h);"),
        ("wrapper.downcast_ref", "let w = AnyValueWrapper::new(String::new());", "w.downcast_ref::<String>().unwrap()", "drop(w);"),
    ]
    for name, mk_h, mk_b, drop_h in owning:
        base = f"let mut v = mk();\n{mk_h}\n"
        add(name, "outlives-owning-handle", f"{base}let mut b = {mk_b};\n{drop_h}\ntouch(&b);", f"{base}let mut b = {mk_b};\ntouch(&b);\n{drop_h}")
    for name, mk_h, mk_b in [("drained.downcast_mut", "let mut d = v.drain(..);\nlet mut e = d.next().unwrap();", "e.downcast_mut::<String>().unwrap()"),
                             ("pop.downcast_mut", "let mut h = v.pop().unwrap();", "h.downcast_mut::<String>().unwrap()")]:
        base = f"let mut v = mk();\n{mk_h}\n"
        add(name, "two-mutable-paths", f"{base}let mut b = {mk_b};\nlet mut b2 = {mk_b};\ntouch_mut(&mut b);\ntouch_mut(&mut b2);", f"{base}let mut b = {mk_b};\ntouch_mut(&mut b);\nlet mut b2 = {mk_b};\ntouch_mut(&mut b2);")
    # iterators: clones of an exclusive iterator are two mutable paths; items of iter_mut while the vector is read
    add("iter_mut.clone", "two-mutable-paths", "let mut v = mk();\nlet mut it = v.iter_mut();\nlet mut it2 = it.clone();\nlet mut a = it.next().unwrap();\nlet mut b = it2.next().unwrap();\ntouch_mut(&mut a);\ntouch_mut(&mut b);",
        "let mut v = mk();\nlet mut it = v.iter_mut();\nlet mut a = it.next().unwrap();\nlet mut b = it.next().unwrap();\ntouch_mut(&mut a);\ntouch_mut(&mut b);")
    add("iter.clone", "mutate-source", "let mut v = mk();\nlet it = v.iter();\nlet it2 = it.clone();\ndrop(it);\nv.clear();\ntouch(&it2);", "let mut v = mk();\nlet it = v.iter();\nlet it2 = it.clone();\ndrop(it);\ntouch(&it2);\nv.clear();")
    add("iter_mut.item", "read-source", "let mut v = mk();\nlet mut it = v.iter_mut();\nlet mut a = it.next().unwrap();\ndrop(it);\nlet n = v.len();\ntouch_mut(&mut a);", "let mut v = mk();\nlet mut it = v.iter_mut();\nlet mut a = it.next().unwrap();\ndrop(it);\ntouch_mut(&mut a);\nlet n = v.len();")
    add("drain.item", "mutate-source", "let mut v = mk();\nlet mut d = v.drain(..);\nlet e = d.next().unwrap();\ndrop(d);\nv.clear();\ntouch(&e);", "let mut v = mk();\nlet mut d = v.drain(..);\nlet e = d.next().unwrap();\ntouch(&e);\ndrop(e);\ndrop(d);\nv.clear();")
    # an item yielded by a draining / splicing iterator is a handle into the vector's storage that the iterator's Drop moves
    # elements over: keeping it beyond ITS source (the iterator) must not compile (std's drain yields owned values instead)
    add("drain.item", "outlive-iterator", "let mut v = mk();\nlet e = { let mut d = v.drain(0..1); d.next().unwrap() };\ntouch(&e);", "let mut v = mk();\n{ let mut d = v.drain(0..1); let e = d.next().unwrap(); touch(&e); }")
    add("splice.item", "outlive-iterator", "let mut v = mk();\nlet e = { let mut d = v.splice(0..1, [AnyValueWrapper::new(String::new())]); d.next().unwrap() };\ntouch(&e);", "let mut v = mk();\n{ let mut d = v.splice(0..1, [AnyValueWrapper::new(String::new())]); let e = d.next().unwrap(); touch(&e); }")
    add("drain.item", "outlive-iterator(collect)", "let mut v = mk();\nlet items: Vec<_> = v.drain(..).collect();\ntouch(&items);", "let mut v = mk();\nlet mut d = v.drain(..);\nlet n = d.by_ref().count();\ntouch(&n);\ndrop(d);")
    add("ElementRef.clone", "mutate-source", "let mut v = mk();\nlet e = v.at(0);\nlet e2 = e.clone();\ndrop(e);\nv.clear();\ntouch(&e2);", "let mut v = mk();\nlet e = v.at(0);\nlet e2 = e.clone();\ndrop(e);\ntouch(&e2);\nv.clear();")
    add("at_mut+at", "shared-while-mutable", "let mut v = mk();\nlet mut m = v.at_mut(0);\nlet s = v.at(1);\ntouch_mut(&mut m);\ntouch(&s);", "let mut v = mk();\nlet mut m = v.at_mut(0);\ntouch_mut(&mut m);\ndrop(m);\nlet s = v.at(1);\ntouch(&s);")
    add("pop+pop", "second-exclusive", "let mut v = mk();\nlet a = v.pop().unwrap();\nlet b = v.pop().unwrap();\ntouch(&a);\ntouch(&b);", "let mut v = mk();\nlet a = v.pop().unwrap();\ntouch(&a);\ndrop(a);\nlet b = v.pop().unwrap();\ntouch(&b);")
    add("remove+swap_remove", "second-exclusive", "let mut v = mk();\nlet a = v.remove(0);\nlet b = v.swap_remove(0);\ntouch(&a);\ntouch(&b);", "let mut v = mk();\nlet a = v.remove(0);\ntouch(&a);\ndrop(a);\nlet b = v.swap_remove(0);\ntouch(&b);")
    add("drain+drain", "second-exclusive", "let mut v = mk();\nlet a = v.drain(0..1);\nlet b = v.drain(1..2);\ntouch(&a);\ntouch(&b);", "let mut v = mk();\nlet a = v.drain(0..1);\ntouch(&a);\ndrop(a);\nlet b = v.drain(0..1);\ntouch(&b);")
    add("splice+push", "mutate-source", "let mut v = mk();\nlet a = v.splice(0..1, [AnyValueWrapper::new(String::new())]);\nv.push(AnyValueWrapper::new(String::new()));\ntouch(&a);", "let mut v = mk();\nlet a = v.splice(0..1, [AnyValueWrapper::new(String::new())]);\ntouch(&a);\ndrop(a);\nv.push(AnyValueWrapper::new(String::new()));")
    add("push(pop-of-self)", "second-exclusive", "let mut v = mk();\nlet h = v.pop().unwrap();\nv.push(h);", "let mut v = mk();\nlet mut w = mk();\nlet h = v.pop().unwrap();\nw.push(h);")
    add("splice(replace-from-self)", "mutate-source", "let mut v = mk();\nlet d = v.splice(0..1, v.iter().map(|e| e.lazy_clone()));\ndrop(d);", "let mut v = mk();\nlet w = mk();\nlet d = v.splice(0..1, w.iter().map(|e| AnyValueWrapper::new(e.downcast_ref::<String>().unwrap().clone())));\ndrop(d);")
    add("t.into_iter", "mutate-source", "let mut v = mk();\nlet t = v.downcast_mut::<String>().unwrap();\nlet h = t.into_iter();\nv.clear();\ntouch(&h);", "let mut v = mk();\nlet t = v.downcast_mut::<String>().unwrap();\nlet h = t.into_iter();\ntouch(&h);\ndrop(h);\nv.clear();")
    add("t.into_iter", "escape-scope", "let h;\n{\n    let mut v = mk();\n    let t = v.downcast_mut::<String>().unwrap();\n    h = t.into_iter();\n}\ntouch(&h);", "{\n    let mut v = mk();\n    let t = v.downcast_mut::<String>().unwrap();\n    let h = t.into_iter();\n    touch(&h);\n}")
    add("iter.item", "mutate-source", "let mut v = mk();\nlet mut it = v.iter();\nlet e = it.next().unwrap();\ndrop(it);\nv.clear();\ntouch(&e);", "let mut v = mk();\nlet mut it = v.iter();\nlet e = it.next().unwrap();\ndrop(it);\ntouch(&e);\ndrop(e);\nv.clear();")
    add("splice.item", "outlives-iterator-source", "let mut v = mk();\nlet e;\n{\n    let mut d = v.splice(0..1, [AnyValueWrapper::new(String::new())]);\n    e = d.next().unwrap();\n}\nv.clear();\ntouch(&e);", "let mut v = mk();\n{\n    let mut d = v.splice(0..1, [AnyValueWrapper::new(String::new())]);\n    let e = d.next().unwrap();\n    touch(&e);\n}\nv.clear();")
    # mutation through a SHARED reference / view must not compile (the control does the same through an exclusive one)
    erased_mut = [("push", "v.push(AnyValueWrapper::new(String::new()))"), ("insert", "v.insert(0, AnyValueWrapper::new(String::new()))"), ("pop", "drop(v.pop())"),
                  ("remove", "drop(v.remove(0))"), ("swap_remove", "drop(v.swap_remove(0))"), ("drain", "drop(v.drain(..))"),
                  ("splice", "drop(v.splice(.., [AnyValueWrapper::new(String::new())]))"), ("clear", "v.clear()"), ("reserve", "v.reserve(1)"), ("shrink_to_fit", "v.shrink_to_fit()"),
                  ("at_mut", "touch(&v.at_mut(0))"), ("get_mut", "touch(&v.get_mut(0))"), ("iter_mut", "touch(&v.iter_mut())"), ("as_bytes_mut", "touch(v.as_bytes_mut())"),
                  ("spare_bytes_mut", "touch(v.spare_bytes_mut())"), ("downcast_mut", "touch(&v.downcast_mut::<String>())"), ("set_len", "unsafe { v.set_len(0) }")]
    for name, call in erased_mut:
        add(f"&AnyVec.{name}", "mutate-through-shared", f"let mut owner = mk();\nlet v: &V = &owner;\n{call};", f"let mut owner = mk();\nlet v: &mut V = &mut owner;\n{call};")
    typed_mut = [("push", "t.push(String::new())"), ("insert", "t.insert(0, String::new())"), ("pop", "drop(t.pop())"), ("remove", "drop(t.remove(0))"), ("swap_remove", "drop(t.swap_remove(0))"),
                 ("drain", "drop(t.drain(..))"), ("splice", "drop(t.splice(.., [String::new()]))"), ("clear", "t.clear()"), ("reserve", "t.reserve(1)"), ("shrink_to", "t.shrink_to(0)"),
                 ("at_mut", "touch(t.at_mut(0))"), ("get_mut", "touch(&t.get_mut(0))"), ("iter_mut", "touch(&t.iter_mut())"), ("as_mut_slice", "touch(t.as_mut_slice())"),
                 ("as_mut_ptr", "touch(&t.as_mut_ptr())"), ("spare_capacity_mut", "touch(t.spare_capacity_mut())"), ("set_len", "unsafe { t.set_len(0) }")]
    for name, call in typed_mut:
        add(f"AnyVecRef.{name}", "mutate-through-shared", f"let mut v = mk();\nlet mut t = v.downcast_ref::<String>().unwrap();\n{call};", f"let mut v = mk();\nlet mut t = v.downcast_mut::<String>().unwrap();\n{call};")
        add(f"&AnyVecMut.{name}", "mutate-through-shared", f"let mut v = mk();\nlet mut m = v.downcast_mut::<String>().unwrap();\nlet t = &m;\n{call};", f"let mut v = mk();\nlet mut m = v.downcast_mut::<String>().unwrap();\nlet t = &mut m;\n{call};")
    for name, mk_h, call in [("ElementRef.downcast_mut", "let h = v.at(0);", "touch(&h.downcast_mut::<String>())"), ("ElementRef.as_bytes_mut", "let h = v.at(0);", "touch(h.as_bytes_mut())"),
                             ("&ElementMut.downcast_mut", "let m = v.at_mut(0);\nlet h = &m;", "touch(&h.downcast_mut::<String>())"), ("&pop.downcast_mut", "let m = v.pop().unwrap();\nlet h = &m;", "touch(&h.downcast_mut::<String>())"),
                             ("&IterRef.next", "let m = v.iter();\nlet h = &m;", "touch(&h.next())")]:
        ctrl_mk = mk_h.replace("v.at(0)", "v.at_mut(0)").replace("let h = &m;", "let h = &mut m;").replace("let m =", "let mut m =").replace("let h = v.at_mut(0);", "let mut h = v.at_mut(0);")
        add(name, "mutate-through-shared", f"let mut v = mk();\n{mk_h}\n{call};", f"let mut v = mk();\n{ctrl_mk}\n{call};")
    # unchecked second-level borrows keep the lifetime of the source
    for name, mk_e, mk_b in [("ElementRef.downcast_ref_unchecked", "let e = v.at(0);", "unsafe { e.downcast_ref_unchecked::<String>() }"),
                             ("ElementMut.downcast_mut_unchecked", "let mut e = v.at_mut(0);", "unsafe { e.downcast_mut_unchecked::<String>() }"),
                             ("pop.downcast_ref_unchecked", "let e = v.pop().unwrap();", "unsafe { any_vec::any_value::AnyValueSizeless::downcast_ref_unchecked::<String>(&e) }")]:
        base = f"let mut v = mk();\n{mk_e}\n"
        add(name, "mutate-source", f"{base}let mut b = {mk_b};\nv.clear();\ntouch(&b);", f"{base}let mut b = {mk_b};\ntouch(&b);\ndrop(e);\nv.clear();")
        add(name, "drop-source", f"{base}let mut b = {mk_b};\ndrop(v);\ntouch(&b);", f"{base}let mut b = {mk_b};\ntouch(&b);\ndrop(e);\ndrop(v);")
    add("push(self-element)", "mutate-source", "let mut v = mk();\nlet e = v.at(0);\nv.push(e.lazy_clone());", "let mut v = mk();\nlet mut w = mk();\nlet e = v.at(0);\nw.push(e.lazy_clone());")
    return out


def run(tier, seed):
    t0 = time.time()
    progs = programs()
    ids = [p[0] for p in progs]
    if len(set(ids)) != len(ids):
        machinery("C16 generator produced duplicate program ids")
    # controls must compile
    src, ranges = gen_fn_crate(PRELUDE, [(pid, ctrl) for pid, _, ctrl in progs])
    rc, msgs, err = cargo_json(write_crate("c16-control", src, lib=True))
    per_fn, stray = errors_by_fn(msgs, ranges)
    if stray or per_fn:
        bad = stray[:2] or list(per_fn.items())[:3]
        machinery(f"C16: a conflict-free control program does not compile (generator / API drift, not a verdict): {bad}")
    # conflict programs must each be rejected by the borrow checker
    src, ranges = gen_fn_crate(PRELUDE, [(pid, conf) for pid, conf, _ in progs])
    rc, msgs, err = cargo_json(write_crate("c16-conflict", src, lib=True))
    per_fn, stray = errors_by_fn(msgs, ranges)
    if stray:
        machinery(f"C16: error outside any probe function: {stray[:2]}")
    violations, samples = [], []
    codes = {}
    for pid, conf, ctrl in progs:
        errs = per_fn.get(pid, [])
        for c, _ in errs:
            codes[c] = codes.get(c, 0) + 1
        if errs and not any(c in BORROW_CODES for c, _ in errs):
            machinery(f"C16: probe {pid} fails for a reason that is not a borrow / move / lifetime error: {errs[0]}")
        if not errs:
            violations.append((f"C16:accepted:{pid}", "this conflicting program compiles (it must be rejected); program:\n    " + conf.replace("\n", "\n    "), {"program": conf, "control": ctrl}))
        if len(samples) < 10 and len(samples) * 37 < progs.index((pid, conf, ctrl)) + 1:
            samples.append({"id": pid, "conflict_program": conf, "verdict": sorted({c for c, _ in errs}) or "ACCEPTED"})
    return report("C16", tier, seed, t0, 2 * len(progs), len(progs),
                  "programs = (handle producer x conflict class) conflict programs, each paired with its conflict-free control; one function per program, "
                  "judged by rustc's borrow checker from one cargo check per crate; distinct_nontrivial = conflict programs (each must be rejected)",
                  samples, violations, {"conflict_programs": len(progs), "control_programs": len(progs), "error_codes_seen": codes})
