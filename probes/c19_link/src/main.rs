//! C19 link probe: a freestanding binary with NO global allocator and no std. It links and runs only if the
//! `alloc` crate is absent from any_vec's dependency graph, i.e. exactly when the `alloc` feature is off.
#![no_std]
#![no_main]

use any_vec::any_value::{AnyValue, AnyValueWrapper};
use any_vec::mem::{Stack, StackN};
use any_vec::AnyVec;
use core::panic::PanicInfo;

#[panic_handler]
fn panic(_: &PanicInfo) -> ! { extern "C" { fn abort() -> !; } unsafe { abort() } }

#[link(name = "c")]
extern "C" {}
#[no_mangle]
pub extern "C" fn rust_eh_personality() {}
#[allow(non_snake_case)]
#[no_mangle]
pub extern "C" fn _Unwind_Resume() -> ! { loop {} }

#[no_mangle]
pub extern "C" fn main(_argc: i32, _argv: *const *const u8) -> i32 {
    // the complete operation set on stack backends, no heap anywhere
    let mut v: AnyVec<dyn any_vec::traits::Cloneable, Stack<64>> = AnyVec::new_in::<u64>(Stack::<64>);
    for i in 0..5u64 { v.push(AnyValueWrapper::new(i)); }
    v.insert(0, AnyValueWrapper::new(100u64));
    let mut w = v.clone_empty_in(StackN::<4, 32>);
    w.push(v.swap_remove(1));
    w.push(v.pop().unwrap());
    { let d = v.drain(1..2); drop(d); }
    { let s = v.splice(0..1, [AnyValueWrapper::new(7u64), AnyValueWrapper::new(8u64)]); drop(s); }
    let c = v.clone();
    let mut sum = 0u64;
    for e in c.iter() { sum += *e.downcast_ref::<u64>().unwrap(); }
    let t = v.downcast_ref::<u64>().unwrap();
    if t.as_slice() != [7, 8, 1, 2] { return 2; }
    if sum != 18 { return 3; }
    if w.len() != 2 || w.at(0).downcast_ref::<u64>() != Some(&0) || w.at(1).downcast_ref::<u64>() != Some(&3) { return 4; }
    if v.remove(0).downcast::<u64>() != Some(7) { return 5; }
    0
}
