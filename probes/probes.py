#!/usr/bin/env python3
"""Compile-verdict grids for the type-level properties C15 (Send/Sync/Clone constraints) and C16 (borrow conflicts).

The configuration grid / program grammar is enumerated completely; the verdict per cell comes from rustc
(trait solver for C15, borrow checker for C16). Nothing is sampled. See DESIGN.md, section 4 (C15, C16).
"""
import json, os, re, subprocess, sys, time, hashlib

ROOT = os.path.dirname(os.path.dirname(os.path.abspath(__file__)))
PROBES = os.path.join(ROOT, "probes")
TARGET = os.path.join(ROOT, "target", "probes")
KNOWN = os.path.join(ROOT, "known_findings.txt")
EVID = os.path.join(ROOT, "evidence")
REPLAYS = os.path.join(ROOT, "replays")
if os.environ.get("ANYVEC_SRC", "/repo") != "/repo":
    # a run against another source tree keeps its evidence / replays / generated crates apart from those of /repo
    import hashlib as _h
    _alt = os.path.join(ROOT, "target", "alt-" + _h.sha1(os.environ["ANYVEC_SRC"].encode()).hexdigest()[:8])
    EVID, REPLAYS, TARGET = os.path.join(_alt, "evidence"), os.path.join(_alt, "replays"), os.path.join(_alt, "probes")
ENV = dict(os.environ, CARGO_NET_OFFLINE="true", CARGO_TARGET_DIR=TARGET)

CARGO_TOML = """[package]
name = "%s"
version = "0.1.0"
edition = "2021"
publish = false
[dependencies]
any_vec = { path = "%s" }
impls = "1.0.3"
[workspace]
"""


def machinery(msg):
    print(f"MACHINERY: {msg}")
    sys.exit(2)


def known_sigs():
    out = {}
    if os.path.exists(KNOWN):
        for line in open(KNOWN):
            line = line.strip()
            if line.startswith("finding:"):
                m = re.search(r"sig=(\S+)\s*(.*)", line)
                if m:
                    out[m.group(1)] = m.group(2)
    return out


def write_crate(name, main_rs, lib=False):
    d = os.path.join(TARGET, "gen", name)
    os.makedirs(os.path.join(d, "src"), exist_ok=True)
    open(os.path.join(d, "Cargo.toml"), "w").write(CARGO_TOML % (name, os.environ.get("ANYVEC_SRC", "/repo")))
    lock = os.path.join(PROBES, "Cargo.lock")
    if os.path.exists(lock):
        import shutil
        shutil.copy(lock, os.path.join(d, "Cargo.lock"))
    open(os.path.join(d, "src", "lib.rs" if lib else "main.rs"), "w").write(main_rs)
    return d


def cargo_json(d, cmd="check"):
    """run cargo <cmd> --message-format=json; returns (returncode, [compiler-message dicts], stderr)"""
    p = subprocess.run(["cargo", cmd, "--offline", "--message-format=json", "--manifest-path", os.path.join(d, "Cargo.toml")], env=ENV, capture_output=True, text=True)
    msgs = []
    for line in p.stdout.splitlines():
        try:
            j = json.loads(line)
        except Exception:
            continue
        if j.get("reason") == "compiler-message" and j.get("target", {}).get("name", "").startswith(("c15", "c16")):
            msgs.append(j["message"])
    return p.returncode, msgs, p.stderr


def errors_by_fn(msgs, ranges):
    """map error messages to the probe function whose line range contains the primary span"""
    per_fn, stray = {}, []
    for m in msgs:
        if m.get("level") != "error":
            continue
        code = (m.get("code") or {}).get("code")
        spans = [s for s in m.get("spans", []) if s.get("is_primary")] or m.get("spans", [])
        if not spans:
            if "aborting due to" in m.get("message", ""):
                continue
            stray.append((code, m.get("message")))
            continue
        line = spans[0]["line_start"]
        fn = next((name for name, (a, b) in ranges.items() if a <= line <= b), None)
        if fn is None:
            stray.append((code, m.get("message")))
        else:
            per_fn.setdefault(fn, []).append((code, m.get("message")))
    return per_fn, stray


# ------------------------------------------------------------------------------------------------------------------
# C15
# ------------------------------------------------------------------------------------------------------------------
SETS = [("None", "dyn TNone", 0, 0, 0), ("Send", "dyn Send", 1, 0, 0), ("Sync", "dyn Sync", 0, 1, 0), ("SendSync", "dyn Send + Sync", 1, 1, 0),
        ("Cl", "dyn Cloneable", 0, 0, 1), ("ClSend", "dyn Cloneable + Send", 1, 0, 1), ("ClSync", "dyn Cloneable + Sync", 0, 1, 1),
        ("ClSendSync", "dyn Cloneable + Send + Sync", 1, 1, 1)]
# (name, type, backend Send, backend Sync): builder AND its Mem
BACKENDS = [("Heap", "Heap", 1, 1), ("Stack", "Stack<16>", 1, 1), ("StackN", "StackN<2, 16>", 1, 1), ("Empty", "Empty", 1, 1),
            ("BuilderNotSend", "UB<NotSend, Both>", 0, 1), ("BuilderNotSync", "UB<NotSync, Both>", 1, 0),
            ("MemNotSend", "UB<Both, NotSend>", 0, 1), ("MemNotSync", "UB<Both, NotSync>", 1, 0)]
# element classes for typed views: (name, type, Send, Sync)
ECLASSES = [("SS", "ESS", 1, 1), ("SendOnly", "ESendOnly", 1, 0), ("SyncOnly", "ESyncOnly", 0, 1), ("NN", "ENN", 0, 0)]
# erased handle types: (name, type template over {tr},{m}, kind, cloneable-only)
HANDLES = [
    ("ElementRef", "ElementRef<'static, {tr}, {m}>", "shared", False),
    ("ElementMut", "ElementMut<'static, {tr}, {m}>", "excl", False),
    ("Element", "Element<'static, {tr}, {m}>", "excl", False),
    ("IterRef", "IterRef<'static, {tr}, {m}>", "shared", False),
    ("IterMut", "IterMut<'static, {tr}, {m}>", "excl", False),
    ("Pop", "Pop<'static, {tr}, {m}>", "excl", False),
    ("Remove", "Remove<'static, {tr}, {m}>", "excl", False),
    ("SwapRemove", "SwapRemove<'static, {tr}, {m}>", "excl", False),
    ("Drain", "Drain<'static, {tr}, {m}>", "excl", False),
    ("Splice", "Splice<'static, {tr}, {m}, core::iter::Empty<AnyValueWrapper<u8>>>", "excl", False),
    ("LazyElement", "LazyClone<'static, Element<'static, {tr}, {m}>>", "shared", True),
    ("LazyPop", "LazyClone<'static, Pop<'static, {tr}, {m}>>", "shared", True),
    ("LazyRemove", "LazyClone<'static, Remove<'static, {tr}, {m}>>", "shared", True),
    ("LazyLazyElement", "LazyClone<'static, LazyClone<'static, Element<'static, {tr}, {m}>>>", "shared", True),
]
C15_PRELUDE = """#![allow(dead_code, unused_imports)]
use any_vec::any_value::{AnyValueWrapper, LazyClone};
use any_vec::element::{Element, ElementMut, ElementRef};
use any_vec::mem::{Empty, Heap, Mem, MemBuilder, MemBuilderSizeable, MemResizable, Stack, StackN};
use any_vec::ops::{Drain, Pop, Remove, Splice, SwapRemove};
use any_vec::traits::{Cloneable, None as TNone};
use any_vec::{AnyVec, AnyVecMut, AnyVecRef, IterMut, IterRef, SatisfyTraits};
use core::alloc::Layout;
use core::marker::PhantomData;

fn need_send<T: Send>(_: &T) {}
fn need_sync<T: Sync>(_: &T) {}

// marker payloads
pub struct Both;
pub struct NotSend(PhantomData<std::sync::MutexGuard<'static, ()>>);   // Sync, !Send
pub struct NotSync(PhantomData<core::cell::Cell<u8>>);                  // Send, !Sync
impl Clone for Both { fn clone(&self) -> Self { Both } }
impl Clone for NotSend { fn clone(&self) -> Self { NotSend(PhantomData) } }
impl Clone for NotSync { fn clone(&self) -> Self { NotSync(PhantomData) } }
impl Default for Both { fn default() -> Self { Both } }
impl Default for NotSend { fn default() -> Self { NotSend(PhantomData) } }
impl Default for NotSync { fn default() -> Self { NotSync(PhantomData) } }

/// user backend: builder carries B, its Mem carries M
#[derive(Clone, Default)]
pub struct UB<B: Clone, M>(B, PhantomData<fn() -> M>);
pub struct UM<M>(M, Layout);
impl<B: Clone, M: Default + Clone> MemBuilder for UB<B, M> { type Mem = UM<M>; fn build(&mut self, l: Layout) -> UM<M> { UM(M::default(), l) } }
impl<M> Mem for UM<M> {
    fn as_ptr(&self) -> *const u8 { self.1.align() as *const u8 }
    fn as_mut_ptr(&mut self) -> *mut u8 { self.1.align() as *mut u8 }
    fn element_layout(&self) -> Layout { self.1 }
    fn size(&self) -> usize { 0 }
}

// element classes
#[derive(Clone)] pub struct ESS(u8);
#[derive(Clone)] pub struct ESendOnly(core::cell::Cell<u8>);
pub struct ESyncOnly(PhantomData<std::sync::MutexGuard<'static, ()>>);
impl Clone for ESyncOnly { fn clone(&self) -> Self { ESyncOnly(PhantomData) } }
#[derive(Clone)] pub struct ENN(std::rc::Rc<u8>);
pub struct ESSNoClone(u8);
pub struct ESendOnlyNoClone(core::cell::Cell<u8>);
pub struct ESyncOnlyNoClone(PhantomData<std::sync::MutexGuard<'static, ()>>);
pub struct ENNNoClone(std::rc::Rc<u8>);
"""


def c15_cells():
    """(cell id, rust bool expression, oracle) — oracle = ("iff", bool) or ("only_if", bool)"""
    cells = []
    for sn, st, s_send, s_sync, s_cl in SETS:
        for bn, bt, b_send, b_sync in BACKENDS:
            vec_send, vec_sync = bool(s_send and b_send), bool(s_sync and b_sync)
            v = f"AnyVec<{st}, {bt}>"
            cells.append((f"AnyVec/{sn}/{bn}/Send", f"impls::impls!({v}: Send)", ("iff", vec_send)))
            cells.append((f"AnyVec/{sn}/{bn}/Sync", f"impls::impls!({v}: Sync)", ("iff", vec_sync)))
            cells.append((f"AnyVec/{sn}/{bn}/Clone", f"impls::impls!({v}: Clone)", ("iff", bool(s_cl))))
            for hn, ht, kind, cl_only in HANDLES:
                if cl_only and not s_cl:
                    continue
                t = ht.format(tr=st, m=bt)
                # a shared-kind handle may cross threads only if &AnyVec could (AnyVec: Sync); an exclusive-kind one
                # may be sent only if AnyVec: Send and shared only if AnyVec: Sync
                send_ok = vec_sync if kind == "shared" else vec_send
                cells.append((f"{hn}/{sn}/{bn}/Send", f"impls::impls!({t}: Send)", ("only_if", send_ok)))
                cells.append((f"{hn}/{sn}/{bn}/Sync", f"impls::impls!({t}: Sync)", ("only_if", vec_sync)))
    # typed views: judged against the element type's own auto traits (+ backend)
    for en, et, e_send, e_sync in ECLASSES:
        for bn, bt, b_send, b_sync in BACKENDS:
            r = f"AnyVecRef<'static, {et}, {bt}>"
            m = f"AnyVecMut<'static, {et}, {bt}>"
            shared_ok = bool(e_sync and b_sync)
            cells.append((f"AnyVecRef/{en}/{bn}/Send", f"impls::impls!({r}: Send)", ("only_if", shared_ok)))
            cells.append((f"AnyVecRef/{en}/{bn}/Sync", f"impls::impls!({r}: Sync)", ("only_if", shared_ok)))
            cells.append((f"AnyVecMut/{en}/{bn}/Send", f"impls::impls!({m}: Send)", ("only_if", bool(e_send and b_send))))
            cells.append((f"AnyVecMut/{en}/{bn}/Sync", f"impls::impls!({m}: Sync)", ("only_if", shared_ok)))
    # SatisfyTraits: an element type lacking a declared constraint is rejected
    for en, et, e_send, e_sync in ECLASSES:
        for clone in (True, False):
            ty = et if clone else et + "NoClone"
            for sn, st, s_send, s_sync, s_cl in SETS:
                ok = (not s_send or e_send) and (not s_sync or e_sync) and (not s_cl or clone)
                cells.append((f"SatisfyTraits/{en}{'' if clone else 'NoClone'}/{sn}", f"impls::impls!({ty}: SatisfyTraits<{st}>)", ("iff", bool(ok))))
    return cells


def c15_accept_reject():
    """probe functions: (id, body, expect_accept)"""
    fns = []
    # constructors x constraint set x element class (Heap): accepted exactly when the element satisfies the set
    for en, et, e_send, e_sync in ECLASSES:
        for clone in (True, False):
            ty = et if clone else et + "NoClone"
            for sn, st, s_send, s_sync, s_cl in SETS:
                ok = (not s_send or e_send) and (not s_sync or e_sync) and (not s_cl or clone)
                for cn, expr in [("new", f"AnyVec::<{st}, Heap>::new::<{ty}>()"), ("new_in", f"AnyVec::<{st}, Heap>::new_in::<{ty}>(Heap)"),
                                 ("with_capacity", f"AnyVec::<{st}, Heap>::with_capacity::<{ty}>(2)"), ("with_capacity_in", f"AnyVec::<{st}, Heap>::with_capacity_in::<{ty}>(2, Heap)")]:
                    fns.append((f"ctor/{cn}/{sn}/{en}{'' if clone else 'NoClone'}", f"let _v = {expr};", ok))
    # method availability per backend / constraint set
    for bn, bt, mk, resizable, sizeable, default in [("Heap", "Heap", "Heap", True, True, True), ("Stack", "Stack<16>", "Stack::<16>", False, False, True),
                                                       ("StackN", "StackN<2, 16>", "StackN::<2, 16>", False, False, True), ("Empty", "Empty", "Empty", False, False, True)]:
        base = f"let mut v: AnyVec<dyn Cloneable, {bt}> = AnyVec::new_in::<u8>({mk});"
        for mn, call in [("reserve", "v.reserve(1);"), ("reserve_exact", "v.reserve_exact(1);"), ("shrink_to", "v.shrink_to(0);"), ("shrink_to_fit", "v.shrink_to_fit();")]:
            fns.append((f"method/{mn}/{bn}", f"{base} {call}", resizable))
            fns.append((f"method/typed-{mn}/{bn}", f"{base} let mut t = v.downcast_mut::<u8>().unwrap(); t.{call[2:]}", resizable))
        fns.append((f"method/with_capacity/{bn}", f"let _v: AnyVec<dyn TNone, {bt}> = AnyVec::with_capacity::<u8>(1);", sizeable))
        fns.append((f"method/with_capacity_in/{bn}", f"let _v: AnyVec<dyn TNone, {bt}> = AnyVec::with_capacity_in::<u8>(1, {mk});", sizeable))
        fns.append((f"method/into_raw_parts/{bn}", f"{base} let _p = v.into_raw_parts();", bn in ("Heap", "Empty")))
    for sn, st, s_send, s_sync, s_cl in SETS:
        fns.append((f"method/clone/{sn}", f"let v: AnyVec<{st}, Heap> = AnyVec::new::<ESS>(); let _c = v.clone();", bool(s_cl)))
        fns.append((f"method/lazy_clone/{sn}", f"use any_vec::any_value::AnyValueCloneable; let v: AnyVec<{st}, Heap> = AnyVec::new::<ESS>(); let e = v.at(0); let _l = e.lazy_clone();", bool(s_cl)))
        # every handle kind is a lazy-clone source exactly when the vector's constraint set has Cloneable
        for hn, body in [("at_mut", "let e = v.at_mut(0); let _l = e.lazy_clone();"), ("pop", "let h = v.pop().unwrap(); let _l = h.lazy_clone();"),
                         ("remove", "let h = v.remove(0); let _l = h.lazy_clone();"), ("swap_remove", "let h = v.swap_remove(0); let _l = h.lazy_clone();"),
                         ("drained", "let mut d = v.drain(..); let e = d.next().unwrap(); let _l = e.lazy_clone();"),
                         ("iter-item", "let e = v.iter().next().unwrap(); let _l = e.lazy_clone();"), ("iter_mut-item", "let e = v.iter_mut().next().unwrap(); let _l = e.lazy_clone();")]:
            fns.append((f"method/lazy_clone({hn})/{sn}", f"use any_vec::any_value::AnyValueCloneable; let mut v: AnyVec<{st}, Heap> = AnyVec::new::<ESS>(); {body}", bool(s_cl)))
        fns.append((f"method/element_clone/{sn}", f"let v: AnyVec<{st}, Heap> = AnyVec::new::<ESS>(); let _f = v.element_clone();", bool(s_cl)))
    # moving / sharing across threads, as programs (not only as trait cells)
    for sn, st, s_send, s_sync, s_cl in SETS:
        fns.append((f"thread/move-vec/{sn}", f"let v: AnyVec<{st}, Heap> = AnyVec::new::<ESS>(); std::thread::spawn(move || drop(v));", bool(s_send)))
        fns.append((f"thread/share-vec/{sn}", f"let v: AnyVec<{st}, Heap> = AnyVec::new::<ESS>(); std::thread::scope(|s| {{ s.spawn(|| v.len()); }});", bool(s_sync)))
        # handles: "only when" is one-directional, so a program is only REQUIRED to be rejected (None = either verdict is fine)
        fns.append((f"thread/share-element-ref/{sn}", f"let v: AnyVec<{st}, Heap> = AnyVec::new::<ESS>(); let e = v.at(0); std::thread::scope(|s| {{ s.spawn(move || drop(e)); }});", None if s_sync else False))
        fns.append((f"thread/send-iter-ref/{sn}", f"let v: AnyVec<{st}, Heap> = AnyVec::new::<ESS>(); let it = v.iter(); std::thread::scope(|s| {{ s.spawn(move || it.len()); }});", None if s_sync else False))
        fns.append((f"thread/send-typed-ref/{sn}", f"let v: AnyVec<{st}, Heap> = AnyVec::new::<ESendOnly>(); let r = v.downcast_ref::<ESendOnly>().unwrap(); std::thread::scope(|s| {{ s.spawn(move || r.len()); }});", False) if not s_sync and not s_cl or (not s_sync) else (f"thread/send-typed-ref/{sn}", "", None))
        fns.append((f"thread/send-element-mut/{sn}", f"let mut v: AnyVec<{st}, Heap> = AnyVec::new::<ESS>(); let e = v.at_mut(0); std::thread::scope(|s| {{ s.spawn(move || drop(e)); }});", None if s_send else False))
        fns.append((f"thread/send-drain/{sn}", f"let mut v: AnyVec<{st}, Heap> = AnyVec::new::<ESS>(); let d = v.drain(..); std::thread::scope(|s| {{ s.spawn(move || drop(d)); }});", None if s_send else False))
    # typed drain / splice return opaque `impl ElementIterator` types: their auto traits can only be probed by value
    mks = {"Heap": "Heap", "Stack": "Stack::<16>", "StackN": "StackN::<2, 16>", "Empty": "Empty", "BuilderNotSend": "UB::<NotSend, Both>::default()",
           "BuilderNotSync": "UB::<NotSync, Both>::default()", "MemNotSend": "UB::<Both, NotSend>::default()", "MemNotSync": "UB::<Both, NotSync>::default()"}
    for bn, bt, b_send, b_sync in BACKENDS:
        for en, et, e_send, e_sync in ECLASSES:
            for op, call in [("drain", "t.drain(..)"), ("splice", f"t.splice(.., core::iter::empty::<{et}>())")]:
                base = f"let mut v: AnyVec<dyn TNone, {bt}> = AnyVec::new_in::<{et}>({mks[bn]}); let mut t = v.downcast_mut::<{et}>().unwrap(); let d = {call};"
                fns.append((f"typed-{op}/{en}/{bn}/Send", f"{base} need_send(&d);", None if (e_send and b_send) else False))
                fns.append((f"typed-{op}/{en}/{bn}/Sync", f"{base} need_sync(&d);", None if (e_sync and b_sync) else False))
            # iterators of the typed views are std slice iterators over T: same rule, checked for completeness
            base = f"let mut v: AnyVec<dyn TNone, {bt}> = AnyVec::new_in::<{et}>({mks[bn]});"
            fns.append((f"typed-iter/{en}/{bn}/Send", f"{base} let r = v.downcast_ref::<{et}>().unwrap(); let it = r.iter(); need_send(&it);", None if e_sync else False))
            fns.append((f"typed-iter_mut/{en}/{bn}/Send", f"{base} let mut t = v.downcast_mut::<{et}>().unwrap(); let it = t.iter_mut(); need_send(&it);", None if e_send else False))
    return fns


def gen_fn_crate(prelude, fns):
    """one `fn` per probe; returns (source, {id: (first line, last line)})"""
    lines = prelude.rstrip("\n").split("\n")
    ranges = {}
    for i, (fid, body) in enumerate(fns):
        start = len(lines) + 1
        lines.append(f"pub fn p{i}() {{ // {fid}")
        for l in body.split("\n"):
            lines.append("    " + l)
        lines.append("}")
        ranges[fid] = (start, len(lines))
    return "\n".join(lines) + "\n", ranges


def report(prop, tier, seed, t0, cells_total, nontrivial, rule, samples, violations, extra_cov):
    """violations: list of (sig, detail, replay-dict)"""
    known = known_sigs()
    hits, fresh = {}, []
    for sig, detail, rp in violations:
        if sig in known:
            hits.setdefault(sig, []).append(detail)
        else:
            fresh.append((sig, detail, rp))
    for sig, ds in sorted(hits.items()):
        print(f"KNOWN-FINDING: property={prop} sig={sig} {known[sig] or ds[0]}")
    os.makedirs(REPLAYS, exist_ok=True)
    for sig, detail, rp in fresh:
        h = hashlib.sha1(sig.encode()).hexdigest()[:10]
        path = os.path.join(REPLAYS, f"{prop}-{h}.json")
        json.dump(dict(rp, property=prop, signature=sig, detail=detail), open(path, "w"), indent=1)
        print(f"VIOLATION property={prop} replay={path}")
        print(f"  sig={sig}")
        print(f"  {detail}")
    cov = dict(evaluations=cells_total, distinct_nontrivial=nontrivial, rule=rule, samples=samples[:25], exhaustive=True,
               known_findings_hit=sorted(hits), **extra_cov)
    ev = {"property_id": prop, "tier": tier, "seed": seed, "level": "exploration", "coverage": cov,
          "assumptions": ["the verdict per cell / program is rustc 1.95's (trait solver, borrow checker); the grid / grammar is enumerated completely",
                          "seed is recorded but unused: nothing is sampled"],
          "wall_s": round(time.time() - t0, 2), "violations": len(fresh)}
    os.makedirs(EVID, exist_ok=True)
    json.dump(ev, open(os.path.join(EVID, f"{prop}.json"), "w"), indent=1)
    print(f"{prop} {tier}: evaluations={cells_total} nontrivial={nontrivial} known={len(hits)} violations={len(fresh)} wall={time.time() - t0:.1f}s")
    return 1 if fresh else 0


def run_c15(tier, seed, only=None):
    t0 = time.time()
    cells = c15_cells()
    # 1. the boolean grid: one compile, one run
    body = ["fn main() {"]
    for cid, expr, _ in cells:
        body.append(f'    println!("{cid} {{}}", {expr});')
    body.append("}")
    d = write_crate("c15-grid", C15_PRELUDE + "\n".join(body) + "\n")
    p = subprocess.run(["cargo", "run", "--offline", "-q", "--manifest-path", os.path.join(d, "Cargo.toml")], env=ENV, capture_output=True, text=True)
    if p.returncode != 0:
        sys.stdout.write(p.stderr[-4000:])
        machinery("C15 grid crate does not build (a public type or method the grid names has changed?)")
    got = dict(l.rsplit(" ", 1) for l in p.stdout.splitlines() if l)
    violations, samples = [], []
    nontrivial = 0
    for cid, expr, (mode, want) in cells:
        if cid not in got:
            machinery(f"C15 grid: no value for cell {cid}")
        val = got[cid] == "true"
        if not want:
            nontrivial += 1   # cells where the statement demands "false": the interesting ones
        bad = (val != want) if mode == "iff" else (val and not want)
        if len(samples) < 12 and (cid.startswith(("ElementRef", "AnyVec/Cl", "SatisfyTraits")) and len(samples) % 3 == 0 or bad):
            samples.append({"cell": cid, "expr": expr, "value": val, "oracle": f"{mode} {want}"})
        if bad:
            violations.append((f"C15:cell:{cid}", f"{expr} is {val}; the statement allows it {'only if' if mode == 'only_if' else 'iff'} {want}", {"cell": cid, "expr": expr}))
    # 2. accept / reject programs
    fns = c15_accept_reject()
    acc = [(fid, body) for fid, body, ok in fns if ok is True]
    rej = [(fid, body) for fid, body, ok in fns if ok is False]
    src, ranges = gen_fn_crate(C15_PRELUDE, acc)
    rc, msgs, err = cargo_json(write_crate("c15-accept", src, lib=True))
    per_fn, stray = errors_by_fn(msgs, ranges)
    if stray:
        machinery(f"C15 accept crate: error outside any probe: {stray[:2]}")
    for fid, errs in per_fn.items():
        violations.append((f"C15:rejected:{fid}", f"program must compile but rustc rejects it: {errs[0][0]} {errs[0][1]}", {"program": dict(acc)[fid]}))
    if rc != 0 and not per_fn:
        machinery("C15 accept crate failed without attributable errors: " + err[-500:])
    src, ranges = gen_fn_crate(C15_PRELUDE, rej)
    rc, msgs, err = cargo_json(write_crate("c15-reject", src, lib=True))
    per_fn, stray = errors_by_fn(msgs, ranges)
    if stray:
        machinery(f"C15 reject crate: error outside any probe: {stray[:2]}")
    for fid, body in rej:
        errs = per_fn.get(fid, [])
        if not errs:
            violations.append((f"C15:accepted:{fid}", "program must be rejected at compile time but compiles", {"program": body}))
        elif not any(c in ("E0277", "E0599", "E0369", "E0308") for c, _ in errs):
            machinery(f"C15 reject probe {fid} fails for an unrelated reason: {errs[0]}")
        if len(samples) < 20 and fid.startswith(("thread/share-element-ref", "ctor/new/Send/SyncOnly")):
            samples.append({"program": body, "expected": "rejected", "errors": [c for c, _ in errs]})
    nontrivial += len(rej)
    return report("C15", tier, seed, t0, len(cells) + len(fns), nontrivial,
                  "cells = constraint set x backend x public type x {Send,Sync,Clone} evaluated with impls! in one compiled program, plus one probe fn per "
                  "(constructor x constraint set x element class), (method x backend / set) and cross-thread program; distinct_nontrivial = cells / programs "
                  "for which the statement demands false / rejection", samples, violations,
                  {"grid_cells": len(cells), "accept_programs": len(acc), "reject_programs": len(rej)})


def main(prop, tier, seed):
    os.makedirs(TARGET, exist_ok=True)
    if prop == "C15":
        return run_c15(tier, seed)
    if prop == "C16":
        import c16
        return c16.run(tier, seed)
    machinery(f"unknown probe property {prop}")
